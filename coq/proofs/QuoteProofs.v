(* Block quote line rewriting (property C06): for lines of the form "> " ++ T (T tab-free) the quote rule
   hands its nested tokenizer line records that are those of T shifted by the two prefix bytes. *)
From Coq Require Import String.
From MdIt Require Import Prims Tables Escape NormRef Indent Mdurl LinkParse Tree HtmlRe Block.
From MdIt Require Import BlockProofs CodeProofs.
From Coq Require Import Lia ZifyBool ZifyN ZifyNat.
Local Open Scope list_scope.
Local Open Scope N_scope.

Arguments N.eqb : simpl never.
Arguments N.leb : simpl never.
Arguments N.ltb : simpl never.
Arguments N.add : simpl never.
Arguments N.sub : simpl never.
Arguments N.modulo : simpl never.
Arguments Z.leb : simpl never.
Arguments Z.ltb : simpl never.
Arguments Z.sub : simpl never.
Arguments Z.of_N : simpl never.

Definition tab_free (T : str) : bool := forallb (fun c => negb (c =? 9)) T.
Definition spaces (w : str) : bool := forallb (fun c => c =? 32) w.

Lemma split_spaces (T : str) : tab_free T = true ->
  exists w r, T = w ++ r /\ spaces w = true /\ match r with x :: _ => is_ws x = false | [] => True end.
Proof.
  induction T as [|x t IH]; intros Ht; [exists [], []; auto|].
  cbn [tab_free forallb] in Ht. apply andb_true_iff in Ht. destruct Ht as [Hx Ht]. destruct (IH Ht) as (w & r & -> & Hw & Hr).
  destruct (x =? 32) eqn:E.
  - exists (x :: w), r. cbn. rewrite E. auto.
  - exists [], (x :: w ++ r). repeat split; auto. unfold is_ws. lia.
Qed.

Lemma spaces_is_ws w : spaces w = true -> forallb is_ws w = true.
Proof. unfold spaces. intros H. rewrite forallb_forall in *. intros x Hx. specialize (H x Hx). unfold is_ws. lia. Qed.

Lemma cols_spaces c w : spaces w = true -> cols_from c w = c + len w.
Proof.
  revert c. induction w as [|x t IH]; intros c H; [unfold len; cbn; lia|].
  cbn [spaces forallb] in H. apply andb_true_iff in H. destruct H as [Hx Ht]. unfold cols_from in *. cbn [fold_left].
  rewrite (IH _ Ht). unfold col_step. replace (x =? 9) with false by lia. unfold len. cbn [length]. lia.
Qed.

Lemma mk_line_tab_free w r : spaces w = true -> match r with x :: _ => is_ws x = false | [] => True end ->
  mk_line (w ++ r) = LRec (w ++ r) (len w) (Z.of_N (len w)).
Proof.
  intros Hw Hr. unfold mk_line. rewrite (leading_ws_spec w r 0 0 (spaces_is_ws w Hw) Hr), (cols_spaces 0 w Hw).
  replace (0 + len w) with (len w) by lia. reflexivity.
Qed.

Lemma find_indent_spaces line w : spaces w = true -> forall r pos ind,
  match r with x :: _ => is_ws x = false | [] => True end ->
  find_indent_loop line (w ++ r) pos ind = (ind + len w, pos + len w).
Proof.
  intros Hw. induction w as [|x t IH]; intros r pos ind Hr.
  - cbn [app]. unfold len. cbn [length]. replace (ind + N.of_nat 0) with ind by lia. replace (pos + N.of_nat 0) with pos by lia.
    destruct r as [|y r']; [reflexivity|]. unfold is_ws in Hr. cbn [find_indent_loop].
    destruct y as [|q]; [reflexivity|]. repeat (destruct q as [q|q|]; try reflexivity; try discriminate Hr).
  - cbn [spaces forallb] in Hw. apply andb_true_iff in Hw. destruct Hw as [Hx Ht]. assert (x = 32) by lia. subst x.
    cbn [app find_indent_loop]. rewrite (IH Ht r (pos + 1) (ind + 1) Hr). unfold len. cbn [length]. f_equal; lia.
Qed.

(* what the nested tokenizer of a block quote sees for the source line "> " ++ T *)
Definition qline (T : str) : lrec := mk_line (62 :: 32 :: T).
Definition shifted (T : str) : lrec := let l := mk_line T in LRec (62 :: 32 :: T) (l_first l + 2) (l_indent l).

Lemma nth_set_nth_same {A} (l : list A) : forall n x y, nth_error l n = Some y -> nth_error (set_nth l n x) n = Some x.
Proof. induction l as [|a t IH]; intros [|n] x y H; cbn in *; try discriminate; [reflexivity|eapply IH; exact H]. Qed.
Lemma nth_set_nth_other {A} (l : list A) : forall n m x, n <> m -> nth_error (set_nth l n x) m = nth_error l m.
Proof. induction l as [|a t IH]; intros [|n] [|m] x H; cbn; try reflexivity; try congruence. apply IH. congruence. Qed.

Lemma qline_eq T : qline T = LRec (62 :: 32 :: T) 0 0%Z.
Proof. reflexivity. Qed.

Theorem quote_scan_rewrites cfg st0 : b_blk st0 = 0 -> forall texts start lines n le,
  (forall i T, nth_error texts i = Some T -> tab_free T = true /\ nth_error lines (start + i) = Some (qline T)) ->
  b_max st0 = (start + length texts)%nat -> (length texts <= n)%nat ->
  exists lines', quote_scan cfg st0 n lines start le = inr (lines', (start + length texts)%nat) /\
    (forall i T, nth_error texts i = Some T -> nth_error lines' (start + i) = Some (shifted T)) /\
    (forall j, (j < start)%nat -> nth_error lines' j = nth_error lines j).
Proof.
  intros Hblk. induction texts as [|T rest IH]; intros start lines n le Hl Hmax Hn.
  - exists lines. cbn [length] in *. replace (start + 0)%nat with start in * by lia. split.
    + destruct n; cbn [quote_scan]; [reflexivity|]. rewrite Hmax, PeanoNat.Nat.ltb_irrefl. reflexivity.
    + split; [intros i T H; destruct i; discriminate|auto].
  - destruct n as [|n]; [cbn in Hn; lia|]. cbn [quote_scan length] in *.
    replace (start <? b_max st0)%nat with true by (symmetry; apply PeanoNat.Nat.ltb_lt; lia). cbn [negb].
    destruct (Hl 0%nat T eq_refl) as [Htf H0]. replace (start + 0)%nat with start in H0 by lia.
    unfold line_indent, get_line, line_rec. cbn [b_lines set_lines b_blk]. rewrite H0, Hblk, qline_eq. cbn [bind ret l_indent l_first l_end l_text].
    unfold l_end. cbn [l_text]. replace (0 <=? len (62 :: 32 :: T)) with true by (unfold len; lia).
    change (dropN 0 (62 :: 32 :: T)) with (62 :: 32 :: T). cbv iota beta.
    replace (62 =? 62) with true by reflexivity. replace (0 - Z.of_N 0 <? 0)%Z with false by reflexivity. cbn [andb negb].
    destruct (split_spaces T Htf) as (w & r & -> & Hw & Hr).
    unfold find_indent_of. change (dropN (0 + 1) (62 :: 32 :: w ++ r)) with ((32 :: w) ++ r).
    rewrite (find_indent_spaces _ (32 :: w)); [|unfold spaces in *; cbn [forallb]; rewrite Hw; reflexivity|exact Hr].
    cbv iota beta. replace (is_sptab 32) with true by reflexivity.
    set (newrec := LRec (62 :: 32 :: w ++ r) (0 + 1 + len (32 :: w)) (Z.of_N (0 + len (32 :: w) - 1))).
    destruct (IH (S start) (set_nth lines start newrec) n (0 + 1 + len (32 :: w) =? len (62 :: 32 :: w ++ r))) as (lines' & E & P1 & P2).
    + intros i T' Hi. destruct (Hl (S i) T' Hi) as [A B]. split; [exact A|].
      rewrite nth_set_nth_other by lia. replace (S start + i)%nat with (start + S i)%nat by lia. exact B.
    + lia.
    + cbn in Hn. lia.
    + exists lines'. replace (start + S (length rest))%nat with (S start + length rest)%nat by lia. split; [exact E|]. split.
      * intros [|i] T' Hi.
        -- injection Hi as <-. replace (start + 0)%nat with start by lia. rewrite P2 by lia.
           rewrite (nth_set_nth_same _ _ _ _ H0). f_equal. unfold shifted. rewrite (mk_line_tab_free w r Hw Hr). cbv zeta.
           cbn [l_first l_indent]. subst newrec. unfold len. cbn [length]. f_equal; lia.
        -- replace (start + S i)%nat with (S start + i)%nat by lia. apply P1. exact Hi.
      * intros j Hj. rewrite P2 by lia. apply nth_set_nth_other. lia.
Qed.
