(* Which rules a parser assembled from the shipped plugins can run (property C03): the compiled chain of a ruler holds
   only rules that were added to it, and no plugin letter other than the HTML ones adds an HTML rule.  This discharges
   the chain hypotheses of SafeProofs for every parser built without the HTML plugin. *)
From Coq Require Import String Permutation.
From MdIt Require Import Prims Tables Ruler Tree Render Block Inline Core Dispatch RulerProofs RulerRefine CacheProofs PairsProofs.
From MdIt Require SafeProofs LineProofs InlineDepthProofs TreeDepthProofs LinkSafeProofs LinkAllProofs PlaceProofs RenderTotalProofs.
From Coq Require Import Lia.
Local Open Scope list_scope.
Local Open Scope N_scope.

Definition vals (r : ruler) : list N := map value (deps r).

(* a compiled chain consists of rules of the ruler *)
Lemma r_iter_vals r chain : coherent r -> snd (r_iter r) = inr chain -> incl chain (vals r).
Proof.
  intros Hc. destruct (iter_spec r Hc) as (-> & _). unfold clear. rewrite r_iter_fresh.
  destruct (requires_ok _); [|discriminate]. destruct (greedy_rank (deps r)) as [o|] eqn:G; [|discriminate].
  intros H. injection H as <-. destruct (greedy_sound _ _ G) as [P _].
  intros v Hv. apply in_map_iff in Hv. destruct Hv as (i & <- & Hi).
  apply (Permutation_in _ P) in Hi. apply in_seq in Hi. destruct (nth_error (deps r) i) as [d|] eqn:E.
  - unfold vals. apply in_map. eapply nth_error_In. exact E.
  - apply nth_error_None in E. lia.
Qed.

(* builder calls do not change which rules there are *)
Definition vpres (f : ruler -> ruler) : Prop := forall r, vals (f r) = vals r.

Lemma upd_last_vals g : (forall d, value (g d) = value d) -> vpres (upd_last g).
Proof.
  intros Hg r. unfold upd_last. destruct (rev (deps r)) as [|d t] eqn:E; [reflexivity|]. unfold vals. cbn [deps].
  rewrite <- (rev_involutive (deps r)), E. rewrite !map_rev. cbn [map]. rewrite Hg. reflexivity.
Qed.
Lemma vpres_id : vpres idf. Proof. intros r. reflexivity. Qed.
Lemma vpres_before m : vpres (r_before m). Proof. apply upd_last_vals. reflexivity. Qed.
Lemma vpres_after m : vpres (r_after m). Proof. apply upd_last_vals. reflexivity. Qed.
Lemma vpres_alias m : vpres (r_alias m). Proof. apply upd_last_vals. reflexivity. Qed.
Lemma vpres_before_all : vpres r_before_all. Proof. apply upd_last_vals. reflexivity. Qed.
Lemma vpres_after_all : vpres r_after_all. Proof. apply upd_last_vals. reflexivity. Qed.
Lemma vpres_comp f g : vpres f -> vpres g -> vpres (fun r => f (g r)).
Proof. intros Hf Hg r. rewrite Hf, Hg. reflexivity. Qed.
#[local] Hint Resolve vpres_id vpres_before vpres_after vpres_alias vpres_before_all vpres_after_all vpres_comp : vp.

Lemma vals_add r m v : vals (r_add r m v) = vals r ++ [v].
Proof. unfold vals, r_add. cbn [deps]. rewrite map_app. reflexivity. Qed.

(* ------------------------------------------------------------------ *)
(* which rules a plugin letter can add: no more than it adds to an empty parser *)

Definition all_vals (m : md) : list N := vals (md_block m) ++ vals (md_inline m) ++ vals (md_core m).
Definition letter_ids (c : N) : list N := all_vals (add_plugin md_new c).

Lemma in_all_vals v m : In v (all_vals m) <-> In v (vals (md_block m)) \/ In v (vals (md_inline m)) \/ In v (vals (md_core m)).
Proof. unfold all_vals. rewrite !in_app_iff. reflexivity. Qed.

Lemma in_block_add v m id f : vpres f -> In v (all_vals (block_add_rule m id f)) -> In v (all_vals m) \/ v = id.
Proof.
  intros Hf. rewrite !in_all_vals. unfold block_add_rule. cbn [md_block md_inline md_core with_block]. rewrite Hf, vals_add, in_app_iff. cbn [In]. intuition.
Qed.
Lemma in_core_add v m id f : vpres f -> In v (all_vals (core_add_rule m id f)) -> In v (all_vals m) \/ v = id.
Proof.
  intros Hf. rewrite !in_all_vals. unfold core_add_rule. cbn [md_block md_inline md_core with_core]. rewrite Hf, vals_add, in_app_iff. cbn [In]. intuition.
Qed.
Lemma in_inline_add v m id mk f : vpres f -> In v (all_vals (inline_add_rule m id mk f)) -> In v (all_vals m) \/ v = id.
Proof.
  intros Hf. rewrite !in_all_vals. unfold inline_add_rule. destruct (mk =? 0); cbn [md_block md_inline md_core with_inline with_charmap with_text_impl];
    rewrite Hf, vals_add, in_app_iff; cbn [In]; intuition.
Qed.
Lemma in_add_inline v m id : In v (all_vals (add_inline m id)) -> In v (all_vals m) \/ v = id.
Proof. apply in_inline_add. apply vpres_id. Qed.
Lemma in_link_end v m : In v (all_vals (add_link_end m)) -> In v (all_vals m) \/ v = I_LINKEND.
Proof. unfold add_link_end. destruct (r_contains _ _); [auto|apply in_add_inline]. Qed.
Lemma in_emph v m marker l id k : In v (all_vals (emph_add_with m marker l id k)) -> In v (all_vals m) \/ v = id \/ v = C_FRAGJOIN.
Proof.
  unfold emph_add_with. destruct (pairs_get (md_pairs m) marker) as [inserted fns].
  set (m1 := with_pairs m _). assert (E1 : all_vals m1 = all_vals m) by reflexivity.
  assert (H2 : In v (all_vals (if inserted then m1 else add_inline m1 id)) -> In v (all_vals m) \/ v = id).
  { destruct inserted; [rewrite E1; auto|]. intros H. apply in_add_inline in H. rewrite E1 in H. exact H. }
  destruct (r_contains _ _); [intros H; apply H2 in H; intuition|].
  intros H. apply in_core_add in H; [|apply vpres_comp; [apply vpres_after|apply vpres_before_all]]. destruct H as [H|H]; [apply H2 in H; intuition|auto].
Qed.
Lemma all_vals_fence m p : all_vals (with_fence_prefix m p) = all_vals m.
Proof. reflexivity. Qed.

Ltac in_right := right; vm_compute; tauto.
Ltac peel H :=
  repeat first
    [ rewrite all_vals_fence in H
    | apply in_link_end in H; destruct H as [H| ->]; [|in_right]
    | apply in_emph in H; destruct H as [H|[->| ->]]; [|in_right|in_right]
    | apply in_add_inline in H; destruct H as [H| ->]; [|in_right]
    | apply in_block_add in H; [destruct H as [H| ->]; [|in_right]|auto with vp]
    | apply in_core_add in H; [destruct H as [H| ->]; [|in_right]|auto with vp] ].

Lemma add_plugin_vals m c v : In v (all_vals (add_plugin m c)) -> In v (all_vals m) \/ In v (letter_ids c).
Proof.
  unfold letter_ids. unfold add_plugin at 1.
  repeat match goal with |- context [if ?x =? ?k then _ else _] => destruct (N.eqb_spec x k); [subst x; intros H; peel H; left; exact H|] end.
  intros H. left. exact H.
Qed.

Lemma fold_add_plugin_vals cs : forall m v, In v (all_vals (fold_left add_plugin cs m)) ->
  In v (all_vals m) \/ exists c, In c cs /\ In v (letter_ids c).
Proof.
  induction cs as [|c t IH]; intros m v H; [left; exact H|]. cbn [fold_left] in H. apply IH in H. destruct H as [H|(c' & Hc & Hv)].
  - apply add_plugin_vals in H. destruct H as [H|H]; [left; exact H|right; exists c; split; [left; reflexivity|exact H]].
  - right. exists c'. split; [right; exact Hc|exact Hv].
Qed.

(* the composite letters C and W stand for these *)
Definition expand (cs : str) : str :=
  flat_map (fun c => if c =? 67 then bs "nebmliatcfqhurHLp" else if c =? 87 then bs "xX" else [c]) cs.

Lemma add_plugins_vals cs : forall m v, In v (all_vals (add_plugins m cs)) ->
  In v (all_vals m) \/ exists c, In c (expand cs) /\ In v (letter_ids c).
Proof.
  unfold add_plugins. induction cs as [|c t IH]; intros m v H; [left; exact H|]. cbn [fold_left] in H. apply IH in H.
  destruct H as [H|(c' & Hc & Hv)].
  - assert (G : In v (all_vals m) \/ exists c', In c' (if c =? 67 then bs "nebmliatcfqhurHLp" else if c =? 87 then bs "xX" else [c]) /\ In v (letter_ids c')).
    { destruct (c =? 67); [apply fold_add_plugin_vals; exact H|]. destruct (c =? 87); [apply fold_add_plugin_vals; exact H|].
      apply add_plugin_vals in H. destruct H as [H|H]; [left; exact H|right; exists c; split; [left; reflexivity|exact H]]. }
    destruct G as [G|(c' & Hc & Hv)]; [left; exact G|]. right. exists c'. split; [|exact Hv]. cbn [expand flat_map]. apply in_or_app. left. exact Hc.
  - right. exists c'. split; [|exact Hv]. cbn [expand flat_map]. apply in_or_app. right. exact Hc.
Qed.

(* every rule of a parser built by build_md is a built-in one or belongs to a letter of its (expanded) configuration *)
Theorem build_md_vals cfg nest v : In v (all_vals (build_md cfg nest)) ->
  In v [I_TEXT; C_BLOCK; C_INLINE] \/ exists c, In c (expand cfg) /\ In v (letter_ids c).
Proof.
  unfold build_md. intros H. apply add_plugins_vals in H. destruct H as [H|(c & Hc & Hv)].
  - left. vm_compute in H. vm_compute. tauto.
  - right. exists c. split; [|exact Hv]. unfold expand in *. apply in_flat_map in Hc. destruct Hc as (x & Hx & Hc). apply filter_In in Hx.
    apply in_flat_map. exists x. split; [apply Hx|exact Hc].
Qed.

(* the letter that owns a given rule *)
Ltac owner_tac := unfold letter_ids, add_plugin;
  repeat match goal with |- context [if ?x =? ?k then _ else _] => destruct (N.eqb_spec x k); [subst x; intros H; vm_compute in H; first [reflexivity | (left; reflexivity) | (right; reflexivity) | (right; left; reflexivity) | (right; right; reflexivity) | exfalso; intuition discriminate]|] end;
  intros H; vm_compute in H; exfalso; intuition discriminate.

Lemma owner_htmlblock c : In R_HTMLBLOCK (letter_ids c) -> c = 88.
Proof. owner_tac. Qed.
Lemma owner_htmlinline c : In I_HTMLINLINE (letter_ids c) -> c = 120.
Proof. owner_tac. Qed.
Lemma owner_sourcepos c : In C_SOURCEPOS (letter_ids c) -> c = 83.
Proof. owner_tac. Qed.
Lemma owner_emph c : In I_EMPH_STAR (letter_ids c) \/ In I_EMPH_UNDER (letter_ids c) \/ In I_STRIKE (letter_ids c) -> c = 109 \/ c = 115 \/ c = 122.
Proof. intros [H|[H|H]]; revert H; owner_tac. Qed.

Lemma in_expand c cs : In c (expand cs) -> In c cs \/ (In 67 cs /\ In c (bs "nebmliatcfqhurHLp")) \/ (In 87 cs /\ In c (bs "xX")).
Proof.
  unfold expand. intros H. apply in_flat_map in H. destruct H as (x & Hx & H).
  destruct (N.eqb_spec x 67); [subst x; right; left; auto|]. destruct (N.eqb_spec x 87); [subst x; right; right; auto|].
  destruct H as [<-|[]]. left. exact Hx.
Qed.

Lemma expand_lacks (bad : N -> bool) cfg :
  forallb (fun c => negb (bad c)) cfg = true ->
  (In 67 cfg -> forallb (fun c => negb (bad c)) (bs "nebmliatcfqhurHLp") = true) ->
  (In 87 cfg -> forallb (fun c => negb (bad c)) (bs "xX") = true) ->
  forall c, In c (expand cfg) -> bad c = false.
Proof.
  intros H0 H1 H2 c Hc. apply in_expand in Hc. apply negb_true_iff.
  destruct Hc as [Hc|[[Hk Hc]|[Hk Hc]]].
  - rewrite forallb_forall in H0. apply H0. exact Hc.
  - specialize (H1 Hk). rewrite forallb_forall in H1. apply H1. exact Hc.
  - specialize (H2 Hk). rewrite forallb_forall in H2. apply H2. exact Hc.
Qed.

Lemma build_md_lacks cfg nest v (bad : N -> bool) :
  ~ In v [I_TEXT; C_BLOCK; C_INLINE] ->
  (forall c, In v (letter_ids c) -> bad c = true) ->
  (forall c, In c (expand cfg) -> bad c = false) ->
  ~ In v (all_vals (build_md cfg nest)).
Proof.
  intros Hb Ho Hc H. apply build_md_vals in H. destruct H as [H|(c & Hin & Hl)]; [exact (Hb H)|].
  specialize (Ho c Hl). rewrite (Hc c Hin) in Ho. discriminate Ho.
Qed.

Lemma forallb_absent (bad : N -> bool) cfg c : forallb (fun c => negb (bad c)) cfg = true -> bad c = true -> ~ In c cfg.
Proof. intros H Hb Hc. rewrite forallb_forall in H. specialize (H c Hc). rewrite Hb in H. discriminate H. Qed.

(* ------------------------------------------------------------------ *)
(* configuration strings without the HTML letters x, X and the composite W *)
Definition html_free_cfg (cfg : str) : bool := forallb (fun c => negb ((c =? 120) || (c =? 88) || (c =? 87))) cfg.
Definition nohtml (m : md) : Prop := ~ In R_HTMLBLOCK (vals (md_block m)) /\ ~ In I_HTMLINLINE (vals (md_inline m)).

Theorem build_md_nohtml cfg nest : html_free_cfg cfg = true -> nohtml (build_md cfg nest).
Proof.
  intros Hc.
  assert (E : forall c, In c (expand cfg) -> (c =? 120) || (c =? 88) || (c =? 87) = false).
  { apply expand_lacks; [exact Hc|intros _; vm_compute; reflexivity|]. intros H. exfalso. revert H. eapply forallb_absent; [exact Hc|reflexivity]. }
  split; intros H.
  - apply (build_md_lacks cfg nest R_HTMLBLOCK (fun c => (c =? 120) || (c =? 88) || (c =? 87)) ltac:(vm_compute; intuition discriminate) ltac:(intros c Hl; apply owner_htmlblock in Hl; subst c; reflexivity) E).
    apply in_all_vals. left. exact H.
  - apply (build_md_lacks cfg nest I_HTMLINLINE (fun c => (c =? 120) || (c =? 88) || (c =? 87)) ltac:(vm_compute; intuition discriminate) ltac:(intros c Hl; apply owner_htmlinline in Hl; subst c; reflexivity) E).
    apply in_all_vals. right. left. exact H.
Qed.

(* configuration strings without the source-position letter S *)
Definition sourcepos_free_cfg (cfg : str) : bool := forallb (fun c => negb (c =? 83)) cfg.

Theorem build_md_no_sourcepos_rule cfg nest : sourcepos_free_cfg cfg = true -> ~ In C_SOURCEPOS (vals (md_core (build_md cfg nest))).
Proof.
  intros Hc H.
  apply (build_md_lacks cfg nest C_SOURCEPOS (fun c => c =? 83) ltac:(vm_compute; intuition discriminate) ltac:(intros c Hl; apply owner_sourcepos in Hl; subst c; reflexivity)).
  - apply expand_lacks; [exact Hc|intros _; vm_compute; reflexivity|intros _; vm_compute; reflexivity].
  - apply in_all_vals. right. right. exact H.
Qed.

(* configuration strings without the emphasis / strikethrough letters m, s and the composite C *)
Definition emph_free_cfg (cfg : str) : bool := forallb (fun c => negb ((c =? 109) || (c =? 115) || (c =? 67) || (c =? 122))) cfg.

Theorem build_md_no_emph_rule cfg nest v : emph_free_cfg cfg = true -> v = I_EMPH_STAR \/ v = I_EMPH_UNDER \/ v = I_STRIKE ->
  ~ In v (vals (md_inline (build_md cfg nest))).
Proof.
  intros Hc Hv H.
  apply (build_md_lacks cfg nest v (fun c => (c =? 109) || (c =? 115) || (c =? 67) || (c =? 122))).
  - destruct Hv as [->|[->| ->]]; vm_compute; intuition discriminate.
  - intros c Hl. assert (O : c = 109 \/ c = 115 \/ c = 122) by (apply owner_emph; destruct Hv as [->|[->| ->]]; auto). destruct O as [->|[->| ->]]; reflexivity.
  - apply expand_lacks; [exact Hc| |intros _; vm_compute; reflexivity]. intros H'. exfalso. revert H'. eapply forallb_absent; [exact Hc|reflexivity].
  - apply in_all_vals. right. left. exact H.
Qed.

Theorem build_md_coherent cfg nest : md_coherent (build_md cfg nest).
Proof.
  unfold build_md. apply add_plugins_cfg. destruct md_new_coherent as (A & B & C & D). repeat split; assumption.
Qed.

(* the compiled chains of such a parser contain no HTML rule *)
Theorem build_md_chains_no_html cfg nest bc ic : html_free_cfg cfg = true ->
  snd (r_iter (md_block (build_md cfg nest))) = inr bc -> snd (r_iter (md_inline (build_md cfg nest))) = inr ic ->
  SafeProofs.no_html_block bc = true /\ SafeProofs.no_html_inline ic = true.
Proof.
  intros Hc Hb Hi. destruct (build_md_nohtml cfg nest Hc) as [Nb Ni]. destruct (build_md_coherent cfg nest) as (Cb & Ci & _).
  apply r_iter_vals in Hb; [|exact Cb]. apply r_iter_vals in Hi; [|exact Ci].
  split; apply forallb_forall; intros r Hr; apply negb_true_iff, N.eqb_neq; intros ->; [apply Nb, Hb, Hr|apply Ni, Hi, Hr].
Qed.

Lemma parse_ok_chains fuel m src d : snd (parse fuel m src) = inr d ->
  exists bc ic, snd (r_iter (md_block m)) = inr bc /\ snd (r_iter (md_inline m)) = inr ic.
Proof.
  unfold parse. destruct (r_iter (md_core m)) as [rc cc0]. destruct (r_iter (md_block m)) as [rb bc0]. destruct (r_iter (md_inline m)) as [ri ic0].
  cbn [snd]. destruct cc0 as [|cc]; cbn [bind]; [discriminate|]. destruct bc0 as [|bc]; cbn [bind]; [discriminate|].
  destruct ic0 as [|ic]; cbn [bind]; [discriminate|]. intros _. exists bc, ic. split; reflexivity.
Qed.

(* C03 for every parser built from the shipped plugins without the HTML plugin: no raw-HTML node, no raw event *)
Theorem shipped_without_html_safe cfg nest fuel src d : html_free_cfg cfg = true ->
  snd (parse fuel (build_md cfg nest) src) = inr d ->
  SafeProofs.raw_free (d_root d) = true /\
  forall xhtml html, render xhtml (d_root d) = inr html -> exists es, Forall SafeProofs.not_raw_event es /\ html = serialize xhtml es.
Proof.
  intros Hc Hd. destruct (parse_ok_chains _ _ _ _ Hd) as (bc & ic & Hb & Hi).
  destruct (build_md_chains_no_html cfg nest bc ic Hc Hb Hi) as [Nb Ni].
  pose proof (emph_safe _ (build_md_pairs_emph cfg nest)) as Hp.
  split; [eapply SafeProofs.parse_raw_free; eassumption|].
  intros xhtml html Hr. eapply SafeProofs.parse_render_no_raw; eassumption.
Qed.

(* C10: the hypothesis of LineProofs holds for every parser built without the letter S *)
Theorem build_md_no_sourcepos cfg nest : sourcepos_free_cfg cfg = true -> LineProofs.no_sourcepos (build_md cfg nest).
Proof.
  intros Hc. unfold LineProofs.no_sourcepos. destruct (snd (r_iter (md_core (build_md cfg nest)))) as [|chain] eqn:E; [exact I|].
  apply Forall_forall. intros r Hr ->. apply (build_md_no_sourcepos_rule cfg nest Hc).
  destruct (build_md_coherent cfg nest) as (_ & _ & Cc & _). eapply r_iter_vals; [exact Cc|exact E|exact Hr].
Qed.

(* C02: the hypothesis of InlineDepthProofs / TreeDepthProofs holds for every parser built without m, s and C *)
Theorem build_md_no_emph cfg nest ic : emph_free_cfg cfg = true ->
  snd (r_iter (md_inline (build_md cfg nest))) = inr ic -> InlineDepthProofs.no_emph ic = true.
Proof.
  intros Hc Hi. destruct (build_md_coherent cfg nest) as (_ & Ci & _). apply r_iter_vals in Hi; [|exact Ci].
  apply forallb_forall. intros r Hr. apply negb_true_iff.
  destruct ((r =? I_EMPH_STAR) || (r =? I_EMPH_UNDER) || (r =? I_STRIKE)) eqn:E; [|reflexivity]. exfalso.
  apply (build_md_no_emph_rule cfg nest r Hc); [|apply Hi; exact Hr].
  apply orb_true_iff in E. destruct E as [E|E]; [apply orb_true_iff in E; destruct E as [E|E]|]; apply N.eqb_eq in E; auto.
Qed.

Theorem shipped_without_emphasis_depth cfg nest fuel src d cc : emph_free_cfg cfg = true ->
  snd (r_iter (md_core (build_md cfg nest))) = inr cc -> snd (parse fuel (build_md cfg nest) src) = inr d ->
  (depth_of (d_root d) <= fold_left (fun dd rule => TreeDepthProofs.step_bound (md_maxnest (build_md cfg nest)) (md_maxnest (build_md cfg nest)) rule dd) cc 0%nat)%nat.
Proof.
  intros Hc Hcc Hd. destruct (parse_ok_chains _ _ _ _ Hd) as (bc & ic & Hb & Hi).
  eapply TreeDepthProofs.parse_tree_depth; [exact Hcc|exact Hi|eapply build_md_no_emph; eassumption|exact Hd].
Qed.

(* C04: the emphasis-table hypothesis of LinkSafeProofs holds for every parser built from the shipped plugins *)
Lemma emph_links good m : md_pairs_emph m = true -> LinkSafeProofs.md_pairs_ok good m = true.
Proof.
  unfold md_pairs_emph, pairs_emph, LinkSafeProofs.md_pairs_ok. rewrite !forallb_forall. intros H p Hp. specialize (H p Hp).
  unfold fns_emph, LinkSafeProofs.fns_ok in *. rewrite forallb_forall in *. intros o Ho. specialize (H o Ho). destruct o as [k|]; [|reflexivity].
  destruct k; try discriminate H; reflexivity.
Qed.

Theorem shipped_urls_safe cfg nest fuel src d : snd (parse fuel (build_md cfg nest) src) = inr d ->
  LinkSafeProofs.raw_free LinkAllProofs.url_safe (d_root d) = true.
Proof. apply LinkAllProofs.parse_urls_safe. apply emph_links. apply build_md_pairs_emph. Qed.

(* ------------------------------------------------------------------ *)
(* C14: a parser built with the paragraph plugin (letter p, or the composite C) runs the paragraph rule *)

Lemma r_iter_vals_complete r chain : coherent r -> snd (r_iter r) = inr chain -> incl (vals r) chain.
Proof.
  intros Hc. destruct (iter_spec r Hc) as (-> & _). unfold clear. rewrite r_iter_fresh.
  destruct (requires_ok _); [|discriminate]. destruct (greedy_rank (deps r)) as [o|] eqn:G; [|discriminate].
  intros H. injection H as <-. destruct (greedy_sound _ _ G) as [P _].
  intros v Hv. unfold vals in Hv. apply in_map_iff in Hv. destruct Hv as (d & <- & Hd). apply In_nth_error in Hd. destruct Hd as [i Hi].
  apply in_map_iff. exists i. rewrite Hi. split; [reflexivity|]. apply (Permutation_in _ (Permutation_sym P)). apply in_seq.
  split; [lia|]. cbn. apply nth_error_Some. rewrite Hi. discriminate.
Qed.

Lemma blk_inline_add m id mk f : md_block (inline_add_rule m id mk f) = md_block m.
Proof. unfold inline_add_rule. destruct (mk =? 0); reflexivity. Qed.
Lemma blk_link_end m : md_block (add_link_end m) = md_block m.
Proof. unfold add_link_end. destruct (r_contains _ _); [reflexivity|apply blk_inline_add]. Qed.
Lemma blk_emph m marker l id k : md_block (emph_add_with m marker l id k) = md_block m.
Proof.
  unfold emph_add_with. destruct (pairs_get (md_pairs m) marker) as [inserted fns]. set (m1 := with_pairs m _).
  assert (E : md_block (if inserted then m1 else add_inline m1 id) = md_block m) by (destruct inserted; [reflexivity|unfold add_inline; rewrite blk_inline_add; reflexivity]).
  destruct (r_contains _ _); [exact E|]. exact E.
Qed.
Lemma blk_block_add v m id f : vpres f -> In v (vals (md_block m)) -> In v (vals (md_block (block_add_rule m id f))).
Proof. intros Hf H. unfold block_add_rule. cbn [md_block with_block]. rewrite Hf, vals_add. apply in_or_app. left. exact H. Qed.

Lemma add_plugin_blk_mono m c v : In v (vals (md_block m)) -> In v (vals (md_block (add_plugin m c))).
Proof.
  intros H. unfold add_plugin.
  repeat match goal with |- context [if ?x =? ?k then _ else _] => destruct (x =? k) end.
  all: try exact H.
  all: cbn [with_fence_prefix md_block]; rewrite ?blk_link_end, ?blk_emph; unfold add_inline; rewrite ?blk_inline_add; try exact H.
  all: try (apply blk_block_add; [auto with vp|exact H]).
Qed.
Lemma fold_add_plugin_blk_mono cs : forall m v, In v (vals (md_block m)) -> In v (vals (md_block (fold_left add_plugin cs m))).
Proof. induction cs as [|c t IH]; intros m v H; [exact H|]. cbn [fold_left]. apply IH. apply add_plugin_blk_mono. exact H. Qed.
Lemma add_plugins_blk_mono cs : forall m v, In v (vals (md_block m)) -> In v (vals (md_block (add_plugins m cs))).
Proof.
  unfold add_plugins. induction cs as [|c t IH]; intros m v H; [exact H|]. cbn [fold_left]. apply IH.
  destruct (c =? 67); [apply fold_add_plugin_blk_mono; exact H|]. destruct (c =? 87); [apply fold_add_plugin_blk_mono; exact H|]. apply add_plugin_blk_mono. exact H.
Qed.

Lemma add_plugin_para m : In R_PARA (vals (md_block (add_plugin m 112))).
Proof. change (add_plugin m 112) with (block_add_rule m R_PARA r_after_all). unfold block_add_rule. cbn [md_block with_block]. rewrite vpres_after_all, vals_add. apply in_or_app. right. left. reflexivity. Qed.

Definition para_cfg (cfg : str) : bool := existsb (fun c => (c =? 112) || (c =? 67)) cfg.

Lemma add_plugins_para cs : para_cfg cs = true -> forall m, In R_PARA (vals (md_block (add_plugins m cs))).
Proof.
  unfold add_plugins, para_cfg. induction cs as [|c t IH]; intros H m; [discriminate H|]. cbn [existsb fold_left] in *.
  destruct ((c =? 112) || (c =? 67)) eqn:Ec.
  - apply (add_plugins_blk_mono t). destruct (N.eqb_spec c 67) as [->|Hn].
    + change (fold_left add_plugin (bs "nebmliatcfqhurHLp") m) with (add_plugin (fold_left add_plugin (bs "nebmliatcfqhurHL") m) 112). apply add_plugin_para.
    + destruct (N.eqb_spec c 112) as [->|Hn2]; [|discriminate Ec]. cbn. apply add_plugin_para.
  - apply IH. exact H.
Qed.

Theorem build_md_has_para cfg nest bc : para_cfg cfg = true ->
  snd (r_iter (md_block (build_md cfg nest))) = inr bc -> In R_PARA bc.
Proof.
  intros Hc Hb. destruct (build_md_coherent cfg nest) as (Cb & _). eapply r_iter_vals_complete; [exact Cb|exact Hb|].
  unfold build_md. apply add_plugins_para. unfold para_cfg in *. apply existsb_exists in Hc. destruct Hc as (c & Hin & Hc).
  apply existsb_exists. exists c. split; [|exact Hc]. apply filter_In. split; [exact Hin|].
  apply orb_true_iff in Hc. destruct Hc as [Hc|Hc]; apply N.eqb_eq in Hc; subst c; reflexivity.
Qed.

(* the placement rules for every parser built from the shipped plugins with the paragraph plugin, any input, any core chain *)
Theorem shipped_placed cfg nest fuel src d : para_cfg cfg = true ->
  snd (parse fuel (build_md cfg nest) src) = inr d ->
  PlaceProofs.placed (d_root d) = true /\ n_kind (d_root d) = KRoot.
Proof.
  intros Hc Hd. destruct (parse_ok_chains _ _ _ _ Hd) as (bc & ic & Hb & Hi).
  eapply RenderTotalProofs.parse_placed; [apply build_md_pairs_emph|exact Hb|eapply build_md_has_para; eassumption|exact Hd].
Qed.
