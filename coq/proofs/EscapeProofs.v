(* Proofs about utils::unescape_all and the reference decoders as modelled in model/Escape.v (C12) *)
From Coq Require Import String.
From MdIt Require Import Prims Tables Escape.
From Coq Require Import Lia ZifyBool ZifyN ZifyNat.
Local Open Scope string_scope.
Local Open Scope list_scope.
Local Open Scope N_scope.

Arguments N.eqb : simpl never.
Arguments N.leb : simpl never.
Arguments N.ltb : simpl never.

(* ---- table facts (finite sweeps over the generated entity table) ---- *)

(* every named reference of the table, standing alone, decodes to its value on the attribute path *)
Lemma named_sweep : forallb (fun kv : str * str => list_eqb (unescape_all (fst kv)) (snd kv)) entity_table = true.
Proof. vm_compute. reflexivity. Qed.

(* no table entry looks like a numeric reference *)
Lemma no_numeric_names :
  forallb (fun kv : str * str => match fst kv with 38 :: 35 :: _ => false | _ => true end) entity_table = true.
Proof. vm_compute. reflexivity. Qed.

Lemma list_eqb_eq a b : list_eqb a b = true -> a = b.
Proof.
  revert b; induction a as [|x a IH]; intros [|y b]; cbn [list_eqb]; try discriminate; [reflexivity|].
  intros H. apply andb_true_iff in H. destruct H as [H1 H2]. apply N.eqb_eq in H1. subst. f_equal. apply IH. exact H2.
Qed.

Lemma assoc_in k v t : assoc_str k t = Some v -> In (k, v) t \/ exists k', In (k', v) t /\ list_eqb k' k = true.
Proof.
  induction t as [|[a w] r IH]; cbn [assoc_str]; [discriminate|].
  destruct (list_eqb a k) eqn:E.
  - intros [= <-]. right. exists a. split; [left; reflexivity|exact E].
  - intros H. destruct (IH H) as [G|(k' & G & Q)]; [left; right; exact G|right; exists k'; split; [right; exact G|exact Q]].
Qed.

Theorem named_reference_decodes k v : get_entity_from_str k = Some v -> unescape_all k = v.
Proof.
  unfold get_entity_from_str. intros H. pose proof named_sweep as S. rewrite forallb_forall in S.
  destruct (assoc_in _ _ _ H) as [G|(k' & G & Q)].
  - apply list_eqb_eq. exact (S (k, v) G).
  - apply list_eqb_eq in Q. subst k'. apply list_eqb_eq. exact (S (k, v) G).
Qed.

Lemma numeric_not_named rest : get_entity_from_str (38 :: 35 :: rest) = None.
Proof.
  unfold get_entity_from_str. pose proof no_numeric_names as S. rewrite forallb_forall in S.
  destruct (assoc_str (38 :: 35 :: rest) entity_table) as [v|] eqn:E; [|reflexivity]. exfalso.
  destruct (assoc_in _ _ _ E) as [G|(k' & G & Q)].
  - specialize (S _ G). cbn in S. discriminate.
  - apply list_eqb_eq in Q. subst k'. specialize (S _ G). cbn in S. discriminate.
Qed.

(* ---- backslash escapes ---- *)
Theorem escape_decodes c : is_ascii_punct c = true -> unescape_all [92; c] = [c].
Proof.
  intros H. unfold unescape_all. cbn [length unescape_fuel]. change (92 =? 92) with true. cbv iota. rewrite H. reflexivity.
Qed.

(* a backslash before anything else stays *)
Theorem escape_other_stays c : is_ascii_punct c = false -> c <> 38 -> c <> 92 -> unescape_all [92; c] = [92; c].
Proof.
  intros H H1 H2. unfold unescape_all. cbn [length unescape_fuel]. change (92 =? 92) with true. cbv iota. rewrite H.
  destruct (N.eqb_spec c 92); [contradiction|]. destruct (N.eqb_spec c 38); [contradiction|]. reflexivity.
Qed.

(* ---- numeric references ---- *)
Lemma span_app p a x r : forallb p a = true -> p x = false -> span p (a ++ x :: r) = (a, x :: r).
Proof.
  induction a as [|y a IH]; intros Ha Hx; cbn [app span forallb] in *.
  - rewrite Hx. reflexivity.
  - apply andb_true_iff in Ha. destruct Ha as [Hy Ha]. rewrite Hy, (IH Ha Hx). reflexivity.
Qed.

Lemma hex_alnum c : is_hex c = true -> is_alnum c = true.
Proof. unfold is_hex, is_alnum, is_alpha, is_upper, is_lower, is_digit, between. lia. Qed.
Lemma digit_alnum c : is_digit c = true -> is_alnum c = true.
Proof. unfold is_alnum. intros ->. reflexivity. Qed.

Lemma forallb_impl {A} (p q : A -> bool) l : (forall x, p x = true -> q x = true) -> forallb p l = true -> forallb q l = true.
Proof. intros H. induction l as [|x t IH]; [reflexivity|]. cbn [forallb]. intros G. apply andb_true_iff in G. destruct G. rewrite (H x), IH; auto. Qed.

Lemma numeric_code_shape body code : numeric_code body = Some code ->
  forallb is_alnum body = true /\ 1 <= len body /\ len body <= 7.
Proof.
  unfold numeric_code. destruct body as [|c t]; [discriminate|].
  destruct ((c =? 120) || (c =? 88)) eqn:X.
  - destruct (forallb is_hex t && (1 <=? len t) && (len t <=? 6)) eqn:E; [|discriminate]. intros _.
    apply andb_true_iff in E. destruct E as [E E3]. apply andb_true_iff in E. destruct E as [E1 E2].
    split; [|unfold len in *; cbn [length]; lia].
    cbn [forallb]. rewrite (forallb_impl _ _ _ hex_alnum E1), andb_true_r.
    unfold is_alnum, is_alpha, is_upper, is_lower, is_digit, between. lia.
  - destruct (forallb is_digit (c :: t) && (len (c :: t) <=? 7)) eqn:E; [|discriminate]. intros _.
    apply andb_true_iff in E. destruct E as [E1 E2].
    split; [exact (forallb_impl _ _ _ digit_alnum E1)|unfold len in *; cbn [length] in *; lia].
Qed.

(* a well-formed numeric reference standing alone decodes, on the attribute path, to the character
   of its code point, or to U+FFFD when the code point is not allowed *)
Theorem numeric_reference_decodes body code : numeric_code body = Some code ->
  unescape_all (38 :: 35 :: body ++ [59]) = code_to_str code.
Proof.
  intros H. destruct (numeric_code_shape _ _ H) as (Ha & H1 & H7).
  unfold unescape_all. cbn [length unescape_fuel]. change (38 =? 92) with false. change (38 =? 38) with true. cbv iota.
  unfold match_entity_re. change (is_alpha 35 || true && (35 =? 35)) with true. cbv iota.
  rewrite (span_app is_alnum body 59 [] Ha eq_refl).
  replace ((1 <=? len body) && (len body <=? 31)) with true by lia.
  unfold replace_entity_pattern. rewrite numeric_not_named.
  rewrite rev_app_distr. cbn [rev app]. rewrite rev_involutive, H.
  destruct (length body + 1)%nat; cbn [unescape_fuel]; apply app_nil_r.
Qed.

(* which code points are allowed (utils.rs:30-44) *)
Theorem valid_entity_code_spec code :
  is_valid_entity_code code = true <->
  ~ (0xD800 <= code <= 0xDFFF) /\ ~ (0xFDD0 <= code <= 0xFDEF) /\
  N.land code 0xFFFF <> 0xFFFF /\ N.land code 0xFFFF <> 0xFFFE /\
  8 < code /\ code <> 0xB /\ ~ (0xE <= code <= 0x1F) /\ ~ (0x7F <= code <= 0x9F) /\ code <= 0x10FFFF.
Proof.
  unfold is_valid_entity_code.
  destruct (N.eqb_spec (N.land code 65535) 65535), (N.eqb_spec (N.land code 65535) 65534);
    repeat match goal with |- context [if ?b then _ else _] => destruct b eqn:? end; split; intros; try discriminate; try lia; try tauto.
Qed.
