(* Property C06, inline level: the inline rules never look at a recorded position except to add to it or to take a
   marker length off it.  Moving every line-relative offset of the table the paragraph hands over (and of the nodes
   already in the tree) by |P| therefore moves every position the rules record by |P| and changes nothing else:
   whenever the inline pass returns a tree for the original table it returns the shifted tree for the shifted table.
   (Only "whenever it returns": a subtraction that would underflow on the original offsets may succeed on the larger
   shifted ones, so the statement is an implication from the original run to the shifted run, not an equation.)
   With ShiftProofs (the block tokenizer hands over exactly the shifted tables) this is the inline half of "the tree
   below the quote is the tree of D with every range shifted by the inserted bytes". *)
From Coq Require Import String.
From MdIt Require Import Prims Tables Escape NormRef Indent Mdurl LinkParse Tree HtmlRe Block Inline.
From MdIt Require Import Render TreeProofs Core Dispatch ShiftProofs PairsProofs.
From Coq Require Import Lia ZifyBool ZifyN ZifyNat.
Local Open Scope list_scope.
Local Open Scope N_scope.

Arguments N.eqb : simpl never.
Arguments N.leb : simpl never.
Arguments N.ltb : simpl never.
Arguments N.add : simpl never.
Arguments N.sub : simpl never.
Arguments Z.add : simpl never.
Arguments Z.sub : simpl never.

(* r1 returned x  ==>  r2 returned f x *)
Definition R {A B} (f : A -> B) (r1 : res A) (r2 : res B) : Prop := forall x, r1 = inr x -> r2 = inr (f x).

Lemma R_bind {A A' B B'} (f : A -> A') (g : B -> B') r1 r2 k1 k2 :
  R f r1 r2 -> (forall x, R g (k1 x) (k2 (f x))) -> R g (bind r1 k1) (bind r2 k2).
Proof. intros H1 H2 y Hy. destruct r1 as [e|x]; [discriminate|]. rewrite (H1 x eq_refl). cbn [bind] in *. exact (H2 x y Hy). Qed.
Lemma R_same {A B B'} (g : B -> B') (r : res A) k1 k2 : (forall x, R g (k1 x) (k2 x)) -> R g (bind r k1) (bind r k2).
Proof. intros H y Hy. destruct r as [e|x]; [discriminate|]. cbn [bind] in *. exact (H x y Hy). Qed.
Lemma R_ret {A B} (f : A -> B) x y : y = f x -> R f (ret x) (ret y).
Proof. intros -> z Hz. injection Hz as <-. reflexivity. Qed.
Lemma R_inl {A B} (f : A -> B) e r2 : R f (inl e) r2.
Proof. intros x Hx. discriminate. Qed.
Lemma R_eq {A B} (f : A -> B) r1 r2 : r2 = fmap f r1 -> R f r1 r2.
Proof. intros -> x ->. reflexivity. Qed.
Lemma R_id {A} (r : res A) : R (fun x => x) r r.
Proof. intros x ->. reflexivity. Qed.

Lemma split_last_map {A B} (f : A -> B) (l : list A) :
  split_last (map f l) = match split_last l with Some (i, x) => Some (map f i, f x) | None => None end.
Proof.
  unfold split_last. rewrite <- map_rev. destruct (rev l) as [|x r]; [reflexivity|]. cbn [map]. rewrite map_rev. reflexivity.
Qed.

Section IShift.
Variable P : str.
Notation shn := (sh_node P).
Notation shm := (sh_map P).
Notation shp := (sh_pos P).
Notation she := (sh_ent P).

Definition shi (st : istate) : istate :=
  IState (i_src st) (map she (i_map st)) (shn (i_node st)) (i_pos st) (i_max st) (i_cache st) (i_link_level st)
         (i_level st) (i_bt st) (i_refs st).
Definition shr {A} (x : istate * A) : istate * A := (shi (fst x), snd x).

(* kinds the shift leaves alone (everything but the inline root the block rules create) *)
Definition plain (k : kind) : Prop := sh_kind P k = k.

(* ---- nodes ---- *)
Lemma shn_children n : n_children (shn n) = map shn (n_children n).
Proof. destruct n; reflexivity. Qed.
Lemma shn_kind n : n_kind (shn n) = sh_kind P (n_kind n).
Proof. destruct n; reflexivity. Qed.
Lemma shn_map n : n_map (shn n) = shm (n_map n).
Proof. destruct n; reflexivity. Qed.
Lemma shn_env n : n_env (shn n) = n_env n.
Proof. destruct n; reflexivity. Qed.
Lemma shn_set_children n l : set_children (shn n) (map shn l) = shn (set_children n l).
Proof. destruct n; reflexivity. Qed.
Lemma shn_set_map n m : set_map (shn n) (shm m) = shn (set_map n m).
Proof. destruct n; reflexivity. Qed.
Lemma shn_set_kind n k : plain k -> set_kind (shn n) k = shn (set_kind n k).
Proof. unfold plain. intros H. destruct n. cbn. rewrite H. reflexivity. Qed.
Lemma shn_push n c : push_child (shn n) (shn c) = shn (push_child n c).
Proof. unfold push_child. rewrite shn_children, <- shn_set_children, map_app. reflexivity. Qed.
Lemma shn_mk k m cs : plain k -> mk k (shm m) (map shn cs) = shn (mk k m cs).
Proof. unfold plain, mk. intros H. cbn. rewrite H. reflexivity. Qed.
Lemma shn_mk0 k m : plain k -> mk k (shm m) [] = shn (mk k m []).
Proof. intros H. exact (shn_mk k m [] H). Qed.
Lemma emark_of_sh k : emark_of (sh_kind P k) = emark_of k.
Proof. destruct k; reflexivity. Qed.
Lemma plain_emark e : plain (kind_of_emark e).
Proof. reflexivity. Qed.

Lemma ipush_shi st c : ipush (shi st) (shn c) = shi (ipush st c).
Proof. unfold ipush, iset_node, shi. cbn. rewrite shn_push. reflexivity. Qed.

(* ---- positions ---- *)
Lemma spos_add_sh p n : spos_add (shp p) n = shp (spos_add p n).
Proof. destruct p; cbn; [reflexivity|]. f_equal. lia. Qed.
Lemma spos_sub_R p n : R shp (spos_sub p n) (spos_sub (shp p) n).
Proof.
  intros x Hx. destruct p as [o|l r]; cbn in *.
  - destruct (n <=? o); [|discriminate]. injection Hx as <-. reflexivity.
  - destruct (n <=? r) eqn:E; [|discriminate]. injection Hx as <-. replace (n <=? len P + r) with true by lia. cbn. unfold ret. do 2 f_equal. lia.
Qed.
Lemma last_entry_sh m pos cur :
  last_entry (map she m) pos (option_map she cur) = option_map she (last_entry m pos cur).
Proof.
  revert cur. induction m as [|e t IH]; intros cur; [reflexivity|]. cbn [map last_entry]. change (fst (she e)) with (fst e).
  destruct (fst e <=? pos); [|reflexivity]. exact (IH (Some e)).
Qed.
Lemma source_pos_for_sh st pos : source_pos_for (shi st) pos = fmap shp (source_pos_for st pos).
Proof.
  unfold source_pos_for. cbn [i_map shi]. change (@None (N * spos)) with (option_map she None) at 1. rewrite last_entry_sh.
  destruct (last_entry (i_map st) pos None) as [[k p]|]; [|reflexivity]. cbn. rewrite spos_add_sh. reflexivity.
Qed.
Lemma iget_map_sh st a b : iget_map (shi st) a b = fmap shm (iget_map st a b).
Proof.
  unfold iget_map. destruct (a <=? b); [|reflexivity]. rewrite !source_pos_for_sh.
  destruct (source_pos_for st a); [reflexivity|]. destruct (source_pos_for st b); reflexivity.
Qed.
Lemma iget_map_R st a b : R shm (iget_map st a b) (iget_map (shi st) a b).
Proof. apply R_eq, iget_map_sh. Qed.

(* ---- what the shift does not touch ---- *)
Lemma isl_shi st a b : isl (shi st) a b = isl st a b.
Proof. reflexivity. Qed.
Lemma irest_shi st : irest (shi st) = irest st.
Proof. reflexivity. Qed.
Lemma get_bt_shi st m : get_bt (shi st) m = get_bt st m.
Proof. reflexivity. Qed.
Lemma set_bt_shi st m v : set_bt (shi st) m v = shi (set_bt st m v).
Proof. reflexivity. Qed.
Lemma cache_get_shi st p : cache_get (shi st) p = cache_get st p.
Proof. reflexivity. Qed.
Lemma scan_delims_shi st s c : scan_delims (shi st) s c = scan_delims st s c.
Proof. reflexivity. Qed.
Lemma first_char_len_shi st : first_char_len (shi st) = first_char_len st.
Proof. reflexivity. Qed.
Lemma trailing_text_get_shi st : trailing_text_get (shi st) = trailing_text_get st.
Proof.
  unfold trailing_text_get. cbn [i_node shi]. rewrite shn_children, split_last_map.
  destruct (split_last (n_children (i_node st))) as [[i [k m a e cs]]|]; [|reflexivity]. destruct k; reflexivity.
Qed.
Lemma code_scan_shi n st marker ol me mv : code_scan n (shi st) marker ol me mv = code_scan n st marker ol me mv.
Proof. revert me mv. induction n as [|n IH]; intros me mv; [reflexivity|]. cbn [code_scan]. rewrite isl_shi. cbn [i_max shi].
  destruct (isl st me (i_max st)) as [e|rest]; [reflexivity|]. cbn [bind]. destruct (find_byte marker rest 0); [|reflexivity].
  destruct (_ =? ol); [reflexivity|]. apply IH. Qed.

(* ---- trailing text ---- *)
Lemma trailing_text_push_R st a b : R shi (trailing_text_push st a b) (trailing_text_push (shi st) a b).
Proof.
  unfold trailing_text_push. rewrite isl_shi. apply R_same. intros piece. cbn [i_node shi]. rewrite shn_children, split_last_map.
  destruct (split_last (n_children (i_node st))) as [[i [k m a0 e cs]]|].
  - destruct k; try (apply (R_bind shm); [apply iget_map_R|intros mp; apply R_ret; rewrite <- ipush_shi, <- shn_mk0 by reflexivity; reflexivity]).
    cbn [shn sh_kind sh_node]. apply (R_bind shm).
    + destruct m as [[ms me]|]; cbn [sh_map].
      * rewrite source_pos_for_sh. intros x Hx. destruct (source_pos_for st b); [discriminate|]. cbn in *. injection Hx as <-. reflexivity.
      * apply R_ret. reflexivity.
    + intros m'. apply R_ret. unfold iset_node, shi. cbn. f_equal. rewrite <- shn_set_children, map_app. reflexivity.
  - apply (R_bind shm); [apply iget_map_R|intros mp; apply R_ret; rewrite <- ipush_shi, <- shn_mk0 by reflexivity; reflexivity].
Qed.

Lemma trailing_text_pop_R st n : R shi (trailing_text_pop st n) (trailing_text_pop (shi st) n).
Proof.
  unfold trailing_text_pop. destruct (n =? 0); [apply R_ret; reflexivity|]. cbn [i_node shi]. rewrite shn_children, split_last_map.
  destruct (split_last (n_children (i_node st))) as [[i [k m a0 e cs]]|]; [|apply R_inl].
  destruct k; try apply R_inl. cbn [shn sh_kind sh_node].
  destruct (len content =? n).
  { apply R_ret. unfold iset_node, shi. cbn. f_equal. rewrite <- shn_set_children. reflexivity. }
  destruct (len content <? n); [apply R_inl|].
  apply (R_bind shm).
  - destruct m as [[ms me]|]; cbn [sh_map]; [|apply R_ret; reflexivity].
    apply (R_bind shp); [apply spos_sub_R|]. intros me'. apply R_ret. reflexivity.
  - intros m'. apply R_ret. unfold iset_node, shi. cbn. f_equal. rewrite <- shn_set_children, map_app. reflexivity.
Qed.

(* a rule result built by pushing one plain node *)
Lemma R_push st k a b (o : option N) :
  plain k -> R shr (do m <- iget_map st a b; ret (ipush st (mk k m []), o))
                   (do m <- iget_map (shi st) a b; ret (ipush (shi st) (mk k m []), o)).
Proof.
  intros Hk. apply (R_bind shm); [apply iget_map_R|]. intros m. apply R_ret. unfold shr. cbn [fst snd].
  rewrite <- ipush_shi, <- shn_mk0 by exact Hk. reflexivity.
Qed.

(* ---- simple rules ---- *)
Lemma rule_text_R cfg st silent : R shr (rule_text cfg st silent) (rule_text cfg (shi st) silent).
Proof.
  unfold rule_text. rewrite irest_shi. apply R_same. intros rest. cbv zeta. destruct (_ =? 0); [apply R_ret; reflexivity|].
  apply (R_bind shi).
  - destruct silent; [apply R_ret; reflexivity|apply trailing_text_push_R].
  - intros st'. apply R_ret. reflexivity.
Qed.

Lemma rule_newline_R st silent : R shr (rule_newline st silent) (rule_newline (shi st) silent).
Proof.
  unfold rule_newline. rewrite irest_shi. apply R_same. intros [|c t]; [apply R_inl|]. destruct (negb (c =? 10)); [apply R_ret; reflexivity|].
  cbv zeta. destruct silent; [apply R_ret; reflexivity|]. rewrite trailing_text_get_shi.
  apply (R_bind shi); [apply trailing_text_pop_R|]. intros st1. cbn [i_pos shi]. destruct (i_pos st <? _); [apply R_inl|].
  apply (R_push st1). destruct (2 <=? _); reflexivity.
Qed.

Lemma rule_escape_R st silent : R shr (rule_escape st silent) (rule_escape (shi st) silent).
Proof.
  unfold rule_escape. rewrite irest_shi. apply R_same. intros [|c t]; [apply R_inl|]. destruct (negb (c =? 92)); [apply R_ret; reflexivity|].
  destruct t as [|d t']; [apply R_ret; reflexivity|]. cbn [i_pos shi].
  destruct d as [|p]; [|destruct (Pos.eq_dec p 10) as [->|Hp]].
  - cbv zeta. destruct silent; [apply R_ret; reflexivity|]. apply (R_push st). reflexivity.
  - cbv zeta. destruct silent; [apply R_ret; reflexivity|]. apply (R_push st). reflexivity.
  - assert (E : forall (A : Type) (x y : A), match N.pos p with 10 => x | _ => y end = y).
    { intros A x y. destruct p as [[[[|[]|]|[[]|[]|]|]|[[]|[]|]|]|[[[]|[]|]|[[[]|[]|]|[]|]|]|]; try reflexivity. congruence. }
    rewrite !E. cbv zeta. destruct silent; [apply R_ret; reflexivity|]. apply (R_push st). reflexivity.
Qed.

Lemma R_push2 st st' k k2 a b a2 b2 (o : option N) :
  plain k -> plain k2 ->
  R shr (do m <- iget_map st a b; do mi <- iget_map st a2 b2; ret (ipush st' (mk k m [mk k2 mi []]), o))
        (do m <- iget_map (shi st) a b; do mi <- iget_map (shi st) a2 b2; ret (ipush (shi st') (mk k m [mk k2 mi []]), o)).
Proof.
  intros Hk Hk2. apply (R_bind shm); [apply iget_map_R|]. intros m. apply (R_bind shm); [apply iget_map_R|]. intros mi.
  apply R_ret. unfold shr. cbn [fst snd]. rewrite <- ipush_shi. f_equal. f_equal.
  rewrite <- (shn_mk k m [mk k2 mi []]) by exact Hk. cbn [map]. rewrite <- shn_mk0 by exact Hk2. reflexivity.
Qed.

Lemma rule_code_pair_R st marker silent : R shr (rule_code_pair st marker silent) (rule_code_pair (shi st) marker silent).
Proof.
  unfold rule_code_pair. rewrite irest_shi. apply R_same. intros [|c t]; [apply R_inl|]. destruct (negb (c =? marker)); [apply R_ret; reflexivity|].
  rewrite trailing_text_get_shi. destruct (match rev (trailing_text_get st) with [] => false | x :: _ => x =? marker end); [apply R_ret; reflexivity|].
  cbv zeta. rewrite get_bt_shi. destruct (get_bt st marker) as [scanned maxv]. cbn [i_pos shi].
  destruct (scanned && _); [apply R_ret; reflexivity|]. rewrite code_scan_shi. apply R_same. intros r.
  destruct (fst r) as [[ms me]|]; [|apply R_ret; reflexivity].
  destruct silent; [apply R_ret; reflexivity|]. rewrite isl_shi. apply R_same. intros raw.
  rewrite set_bt_shi. apply (R_push2 st (set_bt st marker (scanned, snd r))); reflexivity.
Qed.

Lemma rule_autolink_R st silent : R shr (rule_autolink st silent) (rule_autolink (shi st) silent).
Proof.
  unfold rule_autolink. rewrite irest_shi. apply R_same. intros [|c t]; [apply R_inl|]. destruct (negb (c =? 60)); [apply R_ret; reflexivity|].
  cbn [i_pos shi]. destruct (autolink_end t (i_pos st + 2)) as [pos|]; [|apply R_ret; reflexivity]. rewrite isl_shi. apply R_same. intros url.
  cbv zeta. destruct (negb (is_autolink url) && negb (is_email url)); [apply R_ret; reflexivity|].
  destruct (negb (validate_link _)); [apply R_ret; reflexivity|]. destruct silent; [apply R_ret; reflexivity|].
  apply (R_push2 st st); reflexivity.
Qed.

Lemma rule_entity_R st silent : R shr (rule_entity st silent) (rule_entity (shi st) silent).
Proof.
  unfold rule_entity. rewrite irest_shi. apply R_same. intros [|c t]; [apply R_inl|]. destruct (negb (c =? 38)); [apply R_ret; reflexivity|].
  rewrite isl_shi. cbn [i_pos i_src shi]. apply R_same. intros full.
  assert (Hnum : R shr
    (let body_rest := dropN 2 full in let '(run, after) := span (fun b => (b <? 128) && is_alnum b) body_rest in
     match after with
     | 59 :: _ => match numeric_code run with
                  | Some code => let n := 2 + len run + 1 in if silent then ret (st, Some n) else
                      do m <- iget_map st (i_pos st) (i_pos st + n);
                      ret (ipush st (mk (KTextSpecial (code_to_str code) (takeN n full) true) m []), Some n)
                  | None => ret (st, None) end
     | _ => ret (st, None) end)
    (let body_rest := dropN 2 full in let '(run, after) := span (fun b => (b <? 128) && is_alnum b) body_rest in
     match after with
     | 59 :: _ => match numeric_code run with
                  | Some code => let n := 2 + len run + 1 in if silent then ret (shi st, Some n) else
                      do m <- iget_map (shi st) (i_pos st) (i_pos st + n);
                      ret (ipush (shi st) (mk (KTextSpecial (code_to_str code) (takeN n full) true) m []), Some n)
                  | None => ret (shi st, None) end
     | _ => ret (shi st, None) end)).
  { cbv zeta. destruct (span _ _) as [run after]. destruct after as [|x after']; [apply R_ret; reflexivity|].
    destruct (N.eq_dec x 59) as [->|Hx].
    - destruct (numeric_code run); [|apply R_ret; reflexivity]. destruct silent; [apply R_ret; reflexivity|]. apply (R_push st). reflexivity.
    - assert (E : forall (A : Type) (u v : A), match x with 59 => u | _ => v end = v).
      { intros A u v. destruct x as [|p]; [reflexivity|]. do 6 (try (destruct p as [p|p|]; try reflexivity)). congruence. }
      rewrite !E. apply R_ret. reflexivity. }
  assert (Hnam : R shr
    (match match_entity_re false (dropN 1 full) with
     | Some (whole, _) => match get_entity_from_str whole with
        | Some v => let n := len whole in if silent then ret (st, Some n) else
            do m <- iget_map st (i_pos st) (i_pos st + n); ret (ipush st (mk (KTextSpecial v whole true) m []), Some n)
        | None => ret (st, None) end
     | None => ret (st, None) end)
    (match match_entity_re false (dropN 1 full) with
     | Some (whole, _) => match get_entity_from_str whole with
        | Some v => let n := len whole in if silent then ret (shi st, Some n) else
            do m <- iget_map (shi st) (i_pos st) (i_pos st + n); ret (ipush (shi st) (mk (KTextSpecial v whole true) m []), Some n)
        | None => ret (shi st, None) end
     | None => ret (shi st, None) end)).
  { destruct (match_entity_re false (dropN 1 full)) as [[whole x]|]; [|apply R_ret; reflexivity].
    destruct (get_entity_from_str whole); [|apply R_ret; reflexivity]. cbv zeta. destruct silent; [apply R_ret; reflexivity|]. apply (R_push st). reflexivity. }
  destruct t as [|x t']; [exact Hnam|]. destruct (N.eq_dec x 35) as [->|Hx]; [exact Hnum|].
  assert (E : forall (A : Type) (u v : A), match x with 35 => u | _ => v end = v).
  { intros A u v. destruct x as [|p]; [reflexivity|]. do 6 (try (destruct p as [p|p|]; try reflexivity)). congruence. }
  rewrite !E. exact Hnam.
Qed.

Lemma rule_html_inline_R st silent : R shr (rule_html_inline st silent) (rule_html_inline (shi st) silent).
Proof.
  unfold rule_html_inline. rewrite irest_shi. apply R_same. intros [|c t]; [apply R_inl|]. destruct (negb (c =? 60)); [apply R_ret; reflexivity|].
  destruct t as [|d t']; [apply R_ret; reflexivity|]. destruct (_ || _); [|apply R_ret; reflexivity].
  destruct (html_tag_len (c :: d :: t')) as [n|]; [|apply R_ret; reflexivity]. destruct silent; [apply R_ret; reflexivity|].
  cbv zeta. cbn [i_pos i_link_level shi]. set (ll := if html_link_open _ then _ else _).
  change (iget_map (shi st) (i_pos st) (i_pos st + n)) with (iget_map (shi (iset_ll st ll)) (i_pos (iset_ll st ll)) (i_pos (iset_ll st ll) + n)).
  change (iget_map st (i_pos st) (i_pos st + n)) with (iget_map (iset_ll st ll) (i_pos (iset_ll st ll)) (i_pos (iset_ll st ll) + n)).
  change (iset_ll (shi st) ll) with (shi (iset_ll st ll)). apply (R_push (iset_ll st ll)). reflexivity.
Qed.

Lemma rule_custom_inline_R st pat v silent : R shr (rule_custom_inline st pat v silent) (rule_custom_inline (shi st) pat v silent).
Proof.
  unfold rule_custom_inline. rewrite irest_shi. apply R_same. intros rest. destruct (negb _); [apply R_ret; reflexivity|].
  destruct silent; [apply R_ret; reflexivity|]. apply (R_push st). reflexivity.
Qed.

(* ---- emphasis ---- *)
Definition pairs_plain (cfg : icfg) : Prop := forall m k, In (Some k) (pair_fns cfg m) -> plain k.

Lemma nth_some_in {A} (l : list (option A)) i k : nth i l None = Some k -> In (Some k) l.
Proof. revert i. induction l as [|x l IH]; intros [|i] H; cbn in *; try discriminate; eauto. Qed.
Lemma try_len_in (fns : list (option kind)) (n0 n : N) k :
  match nth (N.to_nat (n0 - 1)) fns None with Some k0 => Some (n0, k0) | None => None end = Some (n, k) -> In (Some k) fns.
Proof. destruct (nth (N.to_nat (n0 - 1)) fns None) as [k0|] eqn:E; [|discriminate]. intros H. inversion H; subst. exact (nth_some_in _ _ _ E). Qed.
Lemma or_opt_in {A} (a b : option A) (x : A) (Q : Prop) : (a = Some x -> Q) -> (b = Some x -> Q) -> or_opt a b = Some x -> Q.
Proof. destruct a; cbn; auto. Qed.
Lemma matched_rule_in fns mx n k : matched_rule fns mx = Some (n, k) -> In (Some k) fns.
Proof.
  unfold matched_rule. destruct (3 <=? mx); [|destruct (2 <=? mx); [|destruct (1 <=? mx); [|discriminate]]].
  - apply or_opt_in; [apply try_len_in|]. apply or_opt_in; apply try_len_in.
  - apply or_opt_in; apply try_len_in.
  - apply try_len_in.
Qed.

Lemma map_shift_start_sh m n :
  map_shift_start (shm m) n = (shm (fst (map_shift_start m n)), option_map shp (snd (map_shift_start m n))).
Proof. destruct m as [[a b]|]; cbn; [rewrite spos_add_sh|]; reflexivity. Qed.

Definition shmp (x : emark * emark * smap * smap * list node * bool) :=
  let '(o, c, om, cm, inner, b) := x in (o, c, shm om, shm cm, map shn inner, b).

Lemma match_pair_R n fns : (forall k, In (Some k) fns -> plain k) -> forall o c om cm inner,
  R shmp (match_pair n fns o c om cm inner) (match_pair n fns o c (shm om) (shm cm) (map shn inner)).
Proof.
  intros Hf. induction n as [|n IH]; intros o c om cm inner; [apply R_ret; reflexivity|]. cbn [match_pair].
  destruct (_ && _); [|apply R_ret; reflexivity].
  destruct (matched_rule fns _) as [[mlen knd]|] eqn:Em; [|apply R_ret; reflexivity].
  pose proof (Hf _ (matched_rule_in _ _ _ _ Em)) as Hk.
  rewrite map_shift_start_sh. destruct (map_shift_start cm mlen) as [cm' ep]. cbn [fst snd].
  apply (R_bind (fun x : smap * option spos => (shm (fst x), option_map shp (snd x)))).
  - destruct om as [[a b]|]; cbn [sh_map]; [|apply R_ret; reflexivity].
    apply (R_bind shp); [apply spos_sub_R|]. intros b'. apply R_ret. reflexivity.
  - intros [om' sp]. cbn [fst snd].
    set (nt := mk knd (Some (match sp with Some p0 => p0 | None => SAbs 0 end, match ep with Some p0 => p0 | None => SAbs 0 end)) inner).
    assert (En : mk knd (Some (match option_map shp sp with Some p0 => p0 | None => SAbs 0 end,
                               match option_map shp ep with Some p0 => p0 | None => SAbs 0 end)) (map shn inner) = shn nt).
    { unfold nt. rewrite <- shn_mk by exact Hk. f_equal. destruct sp, ep; reflexivity. }
    rewrite En. change [shn nt] with (map shn [nt]). apply (R_bind shmp); [apply IH|].
    intros [[[[[o2 c2] om2] cm2] inner2] b2]. apply R_ret. reflexivity.
Qed.

Definition shmo (x : list node * emark * smap * bool) := let '(cs, c, cm, b) := x in (map shn cs, c, shm cm, b).

Lemma rev_append_map {A B} (f : A -> B) a b : rev_append (map f a) (map f b) = map f (rev_append a b).
Proof. revert b. induction a as [|x a IH]; intros b; [reflexivity|]. cbn. exact (IH (x :: b)). Qed.

Lemma match_openers_R cfg : pairs_plain cfg -> forall n rb after idx mi c cm any,
  R shmo (match_openers cfg n rb after idx mi c cm any)
         (match_openers cfg n (map shn rb) (map shn after) idx mi c (shm cm) any).
Proof.
  intros Hc. induction n as [|n IH]; intros rb after idx mi c cm any.
  { apply R_ret. cbn. rewrite rev_append_map. reflexivity. }
  cbn [match_openers]. destruct (idx <=? mi). { apply R_ret. cbn. rewrite rev_append_map. reflexivity. }
  destruct rb as [|cand rb']; [apply R_ret; reflexivity|]. cbn [map]. rewrite shn_kind, emark_of_sh.
  destruct (emark_of (n_kind cand)) as [o|]; [|exact (IH rb' (cand :: after) _ _ _ _ _)].
  destruct (_ && _); [|exact (IH rb' (cand :: after) _ _ _ _ _)].
  rewrite shn_map. apply (R_bind shmp); [apply match_pair_R; intros k Hk; exact (Hc _ _ Hk)|].
  intros [[[[[o2 c2] om2] cm2] inner2] b2]. cbn [shmp]. destruct b2; [|exact (IH rb' (cand :: after) _ _ _ _ _)].
  assert (E : (if 0 <? em_remaining o2 then set_map (set_kind (shn cand) (kind_of_emark o2)) (shm om2) :: map shn inner2 else map shn inner2)
              = map shn (if 0 <? em_remaining o2 then set_map (set_kind cand (kind_of_emark o2)) om2 :: inner2 else inner2)).
  { destruct (0 <? em_remaining o2); [|reflexivity]. cbn [map]. rewrite shn_set_kind by apply plain_emark. rewrite shn_set_map. reflexivity. }
  rewrite E. apply IH.
Qed.

Lemma get_openers_sh n m : get_openers (shn n) m = get_openers n m.
Proof. unfold get_openers. rewrite shn_env. reflexivity. Qed.
Lemma set_openers_sh n m v : set_openers (shn n) m v = shn (set_openers n m v).
Proof. destruct n; reflexivity. Qed.

Lemma scan_and_match_R cfg st marker : pairs_plain cfg ->
  R shi (scan_and_match_delimiters cfg st marker) (scan_and_match_delimiters cfg (shi st) marker).
Proof.
  intros Hc. unfold scan_and_match_delimiters. cbn [i_node shi]. rewrite shn_children, split_last_map.
  destruct (split_last (n_children (i_node st))) as [[init ct]|]; [|apply R_inl].
  destruct init as [|i0 init']; [apply R_ret; reflexivity|]. cbn [map]. rewrite shn_kind, emark_of_sh.
  destruct (emark_of (n_kind ct)) as [closer|]; [|apply R_inl]. cbv zeta. rewrite get_openers_sh.
  change (shn i0 :: map shn init') with (map shn (i0 :: init')). rewrite split_last_map, map_length.
  apply (R_bind shmo).
  - destruct (split_last (i0 :: init')) as [[init2 lastn]|]; [|apply R_inl]. rewrite shn_map, <- map_rev.
    change [shn lastn] with (map shn [lastn]). apply match_openers_R. exact Hc.
  - intros [[[cs' closer'] cmap'] any]. cbn [shmo]. apply R_ret.
    unfold iset_node, shi. cbn [i_src i_map i_node i_pos i_max i_cache i_link_level i_level i_bt i_refs]. f_equal.
    rewrite shn_set_children.
    destruct any; [|destruct (_ =? 0)];
      (destruct (0 <? em_remaining closer');
       [rewrite ?set_openers_sh; rewrite shn_set_kind by apply plain_emark; rewrite shn_set_map, shn_push|rewrite ?set_openers_sh]; reflexivity).
Qed.

Lemma rule_emph_R cfg marker cs st silent : pairs_plain cfg ->
  R shr (rule_emph cfg marker cs st silent) (rule_emph cfg marker cs (shi st) silent).
Proof.
  intros Hc. unfold rule_emph. destruct silent; [apply R_ret; reflexivity|]. rewrite irest_shi. apply R_same. intros [|c t]; [apply R_inl|].
  destruct (negb (c =? marker)); [apply R_ret; reflexivity|]. rewrite scan_delims_shi. cbn [i_pos shi]. apply R_same.
  intros [[length can_open] can_close]. apply (R_bind shm); [apply iget_map_R|]. intros m.
  rewrite (shn_mk0 (KEmphMarker marker length length can_open can_close) m) by reflexivity. rewrite ipush_shi.
  apply (R_bind shi).
  - destruct can_close; [apply scan_and_match_R; exact Hc|apply R_ret; reflexivity].
  - intros st2. apply R_ret. reflexivity.
Qed.

(* ---- links and the recursive calls ---- *)
Lemma R_match91 {A B} (f : A -> B) (s : str) a1 b1 a2 b2 :
  R f a1 a2 -> R f b1 b2 -> R f (match s with 91 :: _ => a1 | _ => b1 end) (match s with 91 :: _ => a2 | _ => b2 end).
Proof. intros Ha Hb. destruct s as [|c t]; [assumption|]. destruct c as [|p]; [assumption|]. do 7 (try (destruct p as [p|p|]; try assumption)). Qed.
Lemma R_match3391 {A B} (f : A -> B) (s : str) a1 b1 a2 b2 :
  R f a1 a2 -> R f b1 b2 -> R f (match s with 33 :: 91 :: _ => a1 | _ => b1 end) (match s with 33 :: 91 :: _ => a2 | _ => b2 end).
Proof.
  intros Ha Hb. destruct s as [|c t]; [assumption|]. destruct c as [|p]; [assumption|]. do 6 (try (destruct p as [p|p|]; try assumption)).
  destruct t as [|c t]; [assumption|]. destruct c as [|p]; [assumption|]. do 7 (try (destruct p as [p|p|]; try assumption)).
Qed.

Section Rec.
Variable cfg : icfg.
Variable tok skip : istate -> res istate.
Hypothesis Hc : pairs_plain cfg.
Hypothesis Htok : forall st, R shi (tok st) (tok (shi st)).
Hypothesis Hskip : forall st, R shi (skip st) (skip (shi st)).

Lemma label_loop_R n : forall st level en, R shr (label_loop skip n st level en) (label_loop skip n (shi st) level en).
Proof.
  induction n as [|n IH]; intros st level en; [apply R_inl|]. cbn [label_loop]. rewrite irest_shi. apply R_same. intros [|ch t]; [apply R_ret; reflexivity|].
  cbn [i_pos shi]. destruct (_ && _); [apply R_ret; reflexivity|]. cbv zeta. apply (R_bind shi); [apply Hskip|]. intros st'. cbn [i_pos shi].
  destruct (ch =? 91); [|apply IH]. destruct (_ =? i_pos st'); [apply IH|]. destruct (negb en); [apply R_ret; reflexivity|apply IH].
Qed.

Lemma parse_link_label_R st start en : R shr (parse_link_label skip st start en) (parse_link_label skip (shi st) start en).
Proof.
  unfold parse_link_label. cbn [i_pos i_src shi]. change (iset_pos (shi st) (start + 1)) with (shi (iset_pos st (start + 1))).
  apply (R_bind shr); [apply label_loop_R|]. intros r. apply R_ret. reflexivity.
Qed.

Lemma parse_link_R st pos0 en : R shr (parse_link skip st pos0 en) (parse_link skip (shi st) pos0 en).
Proof.
  unfold parse_link. apply (R_bind shr); [apply parse_link_label_R|]. intros [st1 le]. cbn [shr fst snd].
  destruct le as [label_end|]; [|apply R_ret; reflexivity]. cbv zeta. cbn [i_src i_max shi]. rewrite isl_shi. apply R_same. intros after.
  match goal with |- R _ (match ?ir with _ => _ end) _ => destruct ir as [pl|] end; [apply R_ret; reflexivity|].
  apply (R_bind (fun x : istate * option str * N => (shi (fst (fst x)), snd (fst x), snd x))).
  - apply R_match91; [|apply R_ret; reflexivity]. apply (R_bind shr); [apply parse_link_label_R|]. intros r2. cbn [shr fst snd].
    destruct (snd r2); apply R_ret; reflexivity.
  - intros [[st2 ml] pos']. cbn [fst snd i_refs shi]. destruct (ref_get _ _); apply R_ret; reflexivity.
Qed.

Lemma rule_link_R st silent en off mkk : (forall h t, plain (mkk h t)) ->
  R shr (rule_link tok skip st silent en off mkk) (rule_link tok skip (shi st) silent en off mkk).
Proof.
  intros Hk. unfold rule_link. cbv zeta. cbn [i_pos shi]. apply (R_bind shr); [apply parse_link_R|]. intros [st1 pl]. cbn [shr fst snd].
  destruct pl as [p|]; [|apply R_ret; reflexivity]. destruct silent.
  { cbn [i_pos shi]. destruct (_ <=? _); [apply R_ret; reflexivity|apply R_inl]. }
  match goal with |- R _ (bind (tok ?a) _) (bind (tok ?b) _) => replace b with (shi a) end.
  2:{ unfold shi. cbn [i_src i_map i_node i_pos i_max i_cache i_link_level i_level i_bt i_refs]. f_equal. unfold mk. cbn [sh_node map]. rewrite Hk. reflexivity. }
  apply (R_bind shi); [apply Htok|]. intros inner'.
  match goal with |- R _ (bind (iget_map ?a _ _) _) (bind (iget_map ?b _ _) _) => change b with (shi a) end.
  apply (R_bind shm); [apply iget_map_R|]. intros m. cbn [i_node shi]. rewrite shn_set_map, ipush_shi.
  cbn [i_pos i_link_level shi iset_ll ipush iset_node]. destruct (_ <=? _); [|apply R_inl]. apply R_ret. reflexivity.
Qed.

Lemma rule_code_pair_tok_R st marker silent :
  R shr (rule_code_pair_tok tok st marker silent) (rule_code_pair_tok tok (shi st) marker silent).
Proof.
  unfold rule_code_pair_tok. rewrite irest_shi. apply R_same. intros [|c t]; [apply R_inl|]. destruct (negb (c =? marker)); [apply R_ret; reflexivity|].
  rewrite trailing_text_get_shi. destruct (match rev (trailing_text_get st) with [] => false | x :: _ => x =? marker end); [apply R_ret; reflexivity|].
  cbv zeta. rewrite get_bt_shi. destruct (get_bt st marker) as [scanned maxv]. cbn [i_pos shi].
  destruct (scanned && _); [apply R_ret; reflexivity|]. rewrite code_scan_shi. apply R_same. intros r.
  destruct (fst r) as [[ms me]|]; [|apply R_ret; reflexivity].
  destruct silent; [apply R_ret; reflexivity|]. rewrite isl_shi. apply R_same. intros raw.
  apply (R_bind shm); [apply iget_map_R|]. intros m. rewrite set_bt_shi.
  match goal with |- R _ (bind (tok ?a) _) (bind (tok ?b) _) => change b with (shi a) end.
  apply (R_bind shi); [apply Htok|]. intros inner'. cbn [i_node i_pos i_max i_link_level shi]. rewrite shn_push.
  destruct (_ <=? me); [|apply R_inl]. apply R_ret. reflexivity.
Qed.

Lemma run_rule_R r st silent : R shr (run_rule cfg tok skip r st silent) (run_rule cfg tok skip r (shi st) silent).
Proof.
  unfold run_rule.
  destruct (r =? I_TEXT); [apply rule_text_R|]. destruct (r =? I_NEWLINE); [apply rule_newline_R|].
  destruct (r =? I_ESCAPE); [apply rule_escape_R|]. destruct (r =? I_BACKTICK); [apply rule_code_pair_R|].
  destruct (r =? I_EMPH_STAR); [apply rule_emph_R; exact Hc|]. destruct (r =? I_EMPH_UNDER); [apply rule_emph_R; exact Hc|].
  destruct (r =? I_STRIKE); [apply rule_emph_R; exact Hc|].
  destruct (r =? I_LINK).
  { rewrite irest_shi. apply R_same. intros [|c t]; [apply R_inl|]. destruct (c =? 91); [apply rule_link_R; reflexivity|apply R_ret; reflexivity]. }
  destruct (r =? I_IMAGE).
  { rewrite irest_shi. apply R_same. intros rest. apply R_match3391; [apply rule_link_R; reflexivity|apply R_ret; reflexivity]. }
  destruct (r =? I_LINKEND); [apply R_ret; reflexivity|]. destruct (r =? I_AUTOLINK); [apply rule_autolink_R|].
  destruct (r =? I_ENTITY); [apply rule_entity_R|]. destruct (r =? I_HTMLINLINE); [apply rule_html_inline_R|].
  destruct (r =? I_CUSTOM_LETTER); [apply rule_custom_inline_R|]. destruct (r =? I_CUSTOM_PUNCT); [apply rule_custom_inline_R|].
  destruct (r =? I_CUSTOM_PAIR); [apply rule_code_pair_tok_R|]. apply R_ret. reflexivity.
Qed.

Lemma try_rules_R chain : forall st silent bump,
  R shr (Inline.try_rules cfg tok skip chain st silent bump) (Inline.try_rules cfg tok skip chain (shi st) silent bump).
Proof.
  induction chain as [|r t IH]; intros st silent bump; [apply R_ret; reflexivity|]. cbn [Inline.try_rules].
  replace (if bump then iset_level (shi st) (i_level (shi st) + 1) else shi st) with (shi (if bump then iset_level st (i_level st + 1) else st))
    by (destruct bump; reflexivity).
  apply (R_bind shr); [apply run_rule_R|]. intros x. cbn [shr fst snd]. cbn [i_level shi].
  replace (if bump then iset_level (shi (fst x)) (i_level st) else shi (fst x)) with (shi (if bump then iset_level (fst x) (i_level st) else fst x))
    by (destruct bump; reflexivity).
  destruct (snd x); [apply R_ret; reflexivity|apply IH].
Qed.

Lemma skip_token_body_R st : R shi (skip_token_body cfg tok skip st) (skip_token_body cfg tok skip (shi st)).
Proof.
  unfold skip_token_body. cbv zeta. rewrite cache_get_shi. cbn [i_pos i_level i_max shi]. destruct (cache_get st (i_pos st)); [apply R_ret; reflexivity|].
  destruct (_ <? _); [|apply R_ret; reflexivity]. apply (R_bind shr); [apply try_rules_R|]. intros x. cbn [shr fst snd].
  apply (R_bind shi).
  - destruct (snd x); [apply R_ret; reflexivity|]. rewrite first_char_len_shi. apply R_same. intros n. apply R_ret. reflexivity.
  - intros st2. apply R_ret. reflexivity.
Qed.

Lemma tok_loop_R n : forall st e, R shi (Inline.tok_loop cfg tok skip n st e) (Inline.tok_loop cfg tok skip n (shi st) e).
Proof.
  induction n as [|n IH]; intros st e; cbn [Inline.tok_loop]; cbn [i_pos i_level shi].
  - destruct (negb _); [apply R_ret; reflexivity|apply R_inl].
  - destruct (negb _); [apply R_ret; reflexivity|]. apply (R_bind shr).
    + destruct (_ <? _); [apply try_rules_R|apply R_ret; reflexivity].
    + intros x. cbn [shr fst snd]. destruct (snd x) as [n'|].
      * cbn [i_pos shi iset_pos]. destruct (e <=? _); [apply R_ret; reflexivity|]. apply (IH (iset_pos (fst x) (i_pos (fst x) + n'))).
      * rewrite first_char_len_shi. apply R_same. intros cl. cbn [i_pos shi]. apply (R_bind shi); [apply trailing_text_push_R|].
        intros st2. apply (IH (iset_pos st2 (i_pos st2 + cl))).
Qed.

Lemma tokenize_body_R st : R shi (Inline.tokenize_body cfg tok skip st) (Inline.tokenize_body cfg tok skip (shi st)).
Proof. unfold Inline.tokenize_body. cbn [i_max i_pos shi]. apply tok_loop_R. Qed.
End Rec.

Lemma itok_iskip_R cfg : pairs_plain cfg -> forall fuel,
  (forall st, R shi (itokenize fuel cfg st) (itokenize fuel cfg (shi st))) /\
  (forall st, R shi (iskip fuel cfg st) (iskip fuel cfg (shi st))).
Proof.
  intros Hc. induction fuel as [|f [IHt IHs]]; split; intros st; try apply R_inl.
  - change (itokenize (S f) cfg) with (Inline.tokenize_body cfg (itokenize f cfg) (iskip f cfg)). apply tokenize_body_R; assumption.
  - change (iskip (S f) cfg) with (skip_token_body cfg (itokenize f cfg) (iskip f cfg)). apply skip_token_body_R; assumption.
Qed.

Theorem inline_parse_shift fuel cfg src mp nd refs : pairs_plain cfg ->
  R shn (inline_parse fuel cfg src mp nd refs) (inline_parse fuel cfg src (map she mp) (shn nd) refs).
Proof.
  intros Hc. unfold inline_parse. cbv zeta.
  match goal with |- R _ (bind (itokenize _ _ ?a) _) (bind (itokenize _ _ ?b) _) => change b with (shi a) end.
  apply (R_bind shi); [apply (itok_iskip_R cfg Hc fuel)|]. intros st'. apply R_ret. reflexivity.
Qed.

(* ---- the core rules that run the inline pass over the block tree and tidy up after it ---- *)
Theorem inline_walk_shift fuel cfg refs : pairs_plain cfg ->
  forall n, R shn (inline_walk fuel cfg refs n) (inline_walk fuel cfg refs (shn n)).
Proof.
  intros Hc n. induction n as [k m a e cs IH] using node_ind'. cbn [sh_node inline_walk].
  match goal with |- R _ (bind (?go cs) _) _ => assert (G : R (map shn) (go cs) (go (map shn cs))) end.
  { induction cs as [|c t IHt]; [apply R_ret; reflexivity|]. inversion IH as [|? ? IHc IHt']; subst. specialize (IHt IHt'). cbn [map].
    rewrite shn_kind. destruct (n_kind c) eqn:Ek; cbn [sh_kind].
    all: try (apply (R_bind shn); [exact IHc|]; intros c'; apply (R_bind (map shn)); [exact IHt|]; intros rest; apply R_ret; reflexivity).
    replace (Node (KInlineRoot [] []) (n_map (shn c)) (n_attrs (shn c)) (n_env (shn c)) [])
      with (shn (Node (KInlineRoot [] []) (n_map c) (n_attrs c) (n_env c) [])) by (destruct c; reflexivity).
    apply (R_bind shn); [apply inline_parse_shift; exact Hc|]. intros root'. apply (R_bind (map shn)); [exact IHt|]. intros rest.
    apply R_ret. rewrite shn_children, map_app. reflexivity. }
  apply (R_bind (map shn)); [exact G|]. intros cs'. apply R_ret. reflexivity.
Qed.

Lemma marker_to_text_sh n : marker_to_text (shn n) = shn (marker_to_text n).
Proof. unfold marker_to_text. rewrite shn_kind. destruct (n_kind n) eqn:E; cbn [sh_kind]; try reflexivity. apply shn_set_kind. reflexivity. Qed.
Lemma is_text_sh n : is_text (shn n) = is_text n.
Proof. unfold is_text. rewrite shn_kind. destruct (n_kind n); reflexivity. Qed.
Lemma text_nonempty_sh n : text_nonempty (shn n) = text_nonempty n.
Proof. unfold text_nonempty. rewrite shn_kind. destruct (n_kind n); reflexivity. Qed.
Lemma merge_text_sh a b : merge_text (shn a) (shn b) = shn (merge_text a b).
Proof.
  unfold merge_text. rewrite !shn_kind, !shn_map. destruct (n_kind a) eqn:Ea; cbn [sh_kind]; try reflexivity.
  destruct (n_kind b) eqn:Eb; cbn [sh_kind]; try reflexivity.
  rewrite shn_set_kind by reflexivity. rewrite <- shn_set_map. f_equal.
  destruct (n_map a) as [[s1 e1]|], (n_map b) as [[s2 e2]|]; reflexivity.
Qed.
Lemma fj_collapse_sh l : forall acc, fj_collapse (option_map shn acc) (map shn l) = map shn (fj_collapse acc l).
Proof.
  induction l as [|x t IH]; intros acc; cbn [map fj_collapse].
  - destruct acc as [a|]; cbn [option_map]; [rewrite text_nonempty_sh; destruct (text_nonempty a)|]; reflexivity.
  - rewrite is_text_sh. destruct (is_text x).
    + rewrite <- IH. f_equal. destruct acc as [a|]; cbn [option_map]; [rewrite merge_text_sh|]; reflexivity.
    + rewrite map_app. cbn [map]. rewrite <- (IH None). f_equal.
      destruct acc as [a|]; cbn [option_map]; [rewrite text_nonempty_sh; destruct (text_nonempty a)|]; reflexivity.
Qed.
Theorem fj_walk_shift n : fj_walk (shn n) = shn (fj_walk n).
Proof.
  induction n as [k m a e cs IH] using node_ind'. cbn [sh_node fj_walk]. unfold fragments_join. cbn [n_children set_children sh_node].
  f_equal. rewrite !map_map. rewrite <- (fj_collapse_sh _ None). cbn [option_map]. f_equal. rewrite map_map.
  apply map_ext_in. intros c Hc. rewrite Forall_forall in IH. rewrite (IH c Hc). apply marker_to_text_sh.
Qed.
End IShift.

(* ---- the serializer never looks at a recorded position ---- *)
Lemma alt_text_sh P n : alt_text (sh_node P n) = alt_text n.
Proof.
  induction n as [k m a e cs IH] using node_ind'. cbn [sh_node alt_text].
  assert (G : flat_map alt_text (map (sh_node P) cs) = flat_map alt_text cs).
  { induction cs as [|c t IHt]; [reflexivity|]. inversion IH as [|? ? IHc IHt']; subst. cbn [map flat_map]. rewrite IHc, (IHt IHt'). reflexivity. }
  rewrite G. destruct k; reflexivity.
Qed.

Theorem render_events_sh P n : render_events (sh_node P n) = render_events n.
Proof.
  induction n as [k m a e cs IH] using node_ind'.
  pose proof (alt_text_sh P (Node k m a e cs)) as Halt. cbn [sh_node] in Halt.
  cbn [sh_node render_events].
  match goal with |- context [?g (map (sh_node P) cs)] =>
    match type of g with list node -> res (list event) => set (go := g) end end.
  assert (G : go (map (sh_node P) cs) = go cs).
  { clear Halt. induction cs as [|c t IHt]; [reflexivity|]. inversion IH as [|? ? IHc IHt']; subst. cbn [map].
    change (go (sh_node P c :: map (sh_node P) t)) with (do a0 <- render_events (sh_node P c); do b0 <- go (map (sh_node P) t); ret (a0 ++ b0)).
    change (go (c :: t)) with (do a0 <- render_events c; do b0 <- go t; ret (a0 ++ b0)). rewrite IHc, (IHt IHt'). reflexivity. }
  rewrite G. clearbody go. destruct k; cbn [sh_kind] in *; try reflexivity. rewrite Halt. reflexivity.
Qed.

Theorem render_sh P x n : render x (sh_node P n) = render x n.
Proof. unfold render. rewrite render_events_sh. reflexivity. Qed.

(* every parser assembled from the shipped plugins hands the inline pass a pair table of Em / Strong / Strikethrough
   constructors only, so the hypothesis of the theorems above holds for it *)
Lemma shipped_pairs_plain P m ic mn tp ts : md_pairs_emph m = true ->
  pairs_plain P (ICfg ic mn tp ts (map (fun p : N * (bool * list (option kind)) => (fst p, snd (snd p))) (md_pairs m))).
Proof.
  unfold md_pairs_emph, pairs_plain, pair_fns. cbn [ic_pairs]. intros H marker k.
  induction (md_pairs m) as [|[mk [b f]] t IH]; cbn [map fst snd].
  - intros [E|[E|[E|[]]]]; discriminate E.
  - cbn [pairs_emph forallb snd] in H. apply andb_true_iff in H. destruct H as [Hf Ht]. destruct (mk =? marker); [|exact (IH Ht)].
    intros Hin. unfold fns_emph in Hf. rewrite forallb_forall in Hf. specialize (Hf _ Hin). destruct k; try discriminate Hf; reflexivity.
Qed.

Theorem shipped_inline_pass_shift P cfg nest ic tp ts fuel refs n n' :
  let icf := ICfg ic (md_maxnest (build_md cfg nest)) tp ts
                  (map (fun p : N * (bool * list (option kind)) => (fst p, snd (snd p))) (md_pairs (build_md cfg nest))) in
  inline_walk fuel icf refs n = inr n' ->
  inline_walk fuel icf refs (sh_node P n) = inr (sh_node P n') /\
  fj_walk (sh_node P n') = sh_node P (fj_walk n').
Proof.
  intros icf H. split; [|apply fj_walk_shift].
  apply (inline_walk_shift P fuel icf refs (shipped_pairs_plain P _ _ _ _ _ (build_md_pairs_emph cfg nest)) n n' H).
Qed.

(* inline pass, clean-up and serializer together: the shifted block tree gives the same HTML *)
Theorem shifted_tree_same_html P cfg nest ic tp ts fuel refs x n n' :
  let icf := ICfg ic (md_maxnest (build_md cfg nest)) tp ts
                  (map (fun p : N * (bool * list (option kind)) => (fst p, snd (snd p))) (md_pairs (build_md cfg nest))) in
  inline_walk fuel icf refs n = inr n' ->
  exists n2, inline_walk fuel icf refs (sh_node P n) = inr n2 /\ render x (fj_walk n2) = render x (fj_walk n').
Proof.
  intros icf H. destruct (shipped_inline_pass_shift P cfg nest ic tp ts fuel refs n n' H) as [H1 H2].
  exists (sh_node P n'). split; [exact H1|]. rewrite H2. apply render_sh.
Qed.
