(* Depth of the whole document tree (property C02): every core rule's effect on the depth, and the
   resulting bound for any core chain, for parsers whose inline chain has no emphasis-pair rule. *)
From Coq Require Import String.
From MdIt Require Import Prims Tables Escape NormRef Indent Mdurl SourceMap Ruler Tree Render Block Inline Core.
From MdIt Require Import TreeProofs BlockProofs InlineProofs DepthProofs InlineDepthProofs.
From Coq Require Import Lia ZifyBool ZifyN ZifyNat.
Local Open Scope list_scope.
Local Open Scope N_scope.

Arguments N.eqb : simpl never.

Section Walk.
Variable fuel : nat.
Variable cfg : icfg.
Variable refs : refmap.
Hypothesis Hne : no_emph (ic_chain cfg) = true.
Let M := S (N.to_nat (ic_maxnest cfg)).

Lemma inline_walk_depth n : forall n', inline_walk fuel cfg refs n = inr n' -> (depth_of n' <= depth_of n + M)%nat.
Proof.
  induction n as [k m a e cs IH] using node_ind'. intros n'. cbn [inline_walk].
  match goal with |- bind (?go cs) _ = _ -> _ => assert (G : forall cs', go cs = inr cs' -> (cdepth cs' <= cdepth cs + M)%nat) end.
  { induction cs as [|c t IHt]; intros cs'; [intros H; injection H as <-; cbn; lia|].
    inversion IH as [|? ? IHc IHt']; subst. specialize (IHt IHt').
    destruct (n_kind c) eqn:Ek.
    all: try (destruct (inline_walk fuel cfg refs c) as [|c'] eqn:Ec; cbn [bind]; [discriminate|];
              match goal with |- bind (?g ?tt) _ = _ -> _ => destruct (g tt) as [|rest] eqn:Er end; cbn [bind]; [discriminate|];
              intros H; injection H as <-; specialize (IHc c' eq_refl); specialize (IHt _ eq_refl); cbn [cdepth fold_right];
              fold (cdepth rest) (cdepth t); lia).
    destruct (inline_parse _ _ _ _ _ _) as [|root'] eqn:Ep; cbn [bind]; [discriminate|].
    match goal with |- bind (?g ?tt) _ = _ -> _ => destruct (g tt) as [|rest] eqn:Er end; cbn [bind]; [discriminate|].
    intros H; injection H as <-. apply inline_parse_depth in Ep; [|exact Hne]. specialize (IHt _ eq_refl).
    rewrite cdepth_app. rewrite (depth_children root') in Ep. cbn [cdepth fold_right]. fold (cdepth t). subst M. lia. }
  destruct (_ cs) as [|cs'] eqn:E; cbn [bind]; [discriminate|]. intros H. injection H as <-. rewrite !depth_node. apply G. reflexivity.
Qed.
End Walk.

(* fragments_join merges and drops text nodes: never deeper *)
Definition od (acc : option node) : nat := match acc with Some a => S (depth_of a) | None => 0%nat end.

Lemma depth_set_kind n k : depth_of (set_kind n k) = depth_of n.
Proof. destruct n; reflexivity. Qed.
Lemma depth_merge_text a x : depth_of (merge_text a x) = depth_of a.
Proof. unfold merge_text. destruct (n_kind a); try reflexivity. destruct (n_kind x); try reflexivity. rewrite depth_set_map, depth_set_kind. reflexivity. Qed.

Lemma fj_collapse_depth l : forall acc, (cdepth (fj_collapse acc l) <= Nat.max (od acc) (cdepth l))%nat.
Proof.
  induction l as [|x t IH]; intros acc; cbn [fj_collapse].
  - destruct acc as [a|]; [destruct (text_nonempty a)|]; cbn; lia.
  - destruct (is_text x).
    + specialize (IH (Some (match acc with Some a => merge_text a x | None => x end))). cbn [od cdepth fold_right] in *. fold (cdepth t).
      destruct acc as [a|]; [rewrite depth_merge_text in IH|]; cbn [od]; lia.
    + rewrite cdepth_app. specialize (IH None). cbn [od cdepth fold_right] in *. fold (cdepth t) (cdepth (fj_collapse None t)).
      destruct acc as [a|]; [destruct (text_nonempty a)|]; cbn [od cdepth fold_right]; lia.
Qed.

Lemma cdepth_map_le (g : node -> node) cs : (forall c, In c cs -> (depth_of (g c) <= depth_of c)%nat) -> (cdepth (map g cs) <= cdepth cs)%nat.
Proof.
  induction cs as [|c t IH]; intros H; [cbn; lia|]. cbn [map cdepth fold_right]. fold (cdepth t) (cdepth (map g t)).
  pose proof (H c (or_introl eq_refl)). specialize (IH (fun x Hx => H x (or_intror Hx))). lia.
Qed.

Lemma marker_to_text_depth n : depth_of (marker_to_text n) = depth_of n.
Proof. unfold marker_to_text. destruct (n_kind n); try reflexivity. apply depth_set_kind. Qed.

Lemma fj_walk_depth n : (depth_of (fj_walk n) <= depth_of n)%nat.
Proof.
  induction n as [k m a e cs IH] using node_ind'. cbn [fj_walk]. unfold fragments_join. cbn [set_children n_children]. rewrite !depth_node.
  pose proof (fj_collapse_depth (map marker_to_text (map fj_walk cs)) None) as H. cbn [od] in H.
  assert (Q : (cdepth (map marker_to_text (map fj_walk cs)) <= cdepth cs)%nat).
  { rewrite map_map. apply cdepth_map_le. intros c Hc. rewrite marker_to_text_depth. rewrite Forall_forall in IH. apply IH. exact Hc. }
  lia.
Qed.

Lemma walk_mut_depth g n : forall d, depth_of (walk_mut g n d) = depth_of n.
Proof.
  induction n as [k m a e cs IH] using node_ind'. intros d. cbn [walk_mut].
  destruct (g (Node k m a e cs) d) as [k' m' a' e' cs']. cbn [set_children]. rewrite !depth_node.
  induction cs as [|c t IHt]; [reflexivity|]. inversion IH as [|? ? Hc Ht]; subst. cbn [map cdepth fold_right]. rewrite Hc.
  fold (cdepth t). f_equal. apply IHt. exact Ht.
Qed.

(* effect of one core rule on the depth of the document *)
Definition step_bound (bmax imax : N) (rule : N) (d : nat) : nat :=
  if rule =? C_BLOCK then Nat.max d (2 * N.to_nat bmax)
  else if rule =? C_INLINE then (d + S (N.to_nat imax))%nat
  else if rule =? C_FRAGJOIN then d
  else if rule =? C_SOURCEPOS then d
  else if rule =? C_CUSTOMCORE then Nat.max d 1
  else d.

Lemma core_step_depth fuel bcf icf src st rule r d : no_emph (ic_chain icf) = true ->
  (match st with inr x => (depth_of (fst (fst x)) <= d)%nat | inl _ => True end) ->
  core_step fuel bcf icf src st rule = inr r ->
  (depth_of (fst (fst r)) <= step_bound (bc_maxnest bcf) (ic_maxnest icf) rule d)%nat.
Proof.
  intros Hne Hd. unfold core_step, step_bound. destruct st as [|[[root refs] starts]]; cbn [bind]; [discriminate|]. cbn [fst] in Hd.
  destruct (rule =? C_BLOCK).
  { destruct (block_parse _ _ _ _ _) as [|[r1 rf]] eqn:E; cbn [bind]; [discriminate|]. intros H. injection H as <-. cbn [fst].
    apply block_tree_depth in E. destruct root as [k m a e cs]. cbn [set_children n_children]. rewrite depth_node, cdepth_app.
    rewrite depth_node in Hd. rewrite (depth_children r1) in E. lia. }
  destruct (rule =? C_INLINE).
  { destruct (inline_walk _ _ _ _) as [|r1] eqn:E; cbn [bind]; [discriminate|]. intros H. injection H as <-. cbn [fst].
    apply inline_walk_depth in E; [|exact Hne]. lia. }
  destruct (rule =? C_FRAGJOIN); [intros H; injection H as <-; cbn [fst]; pose proof (fj_walk_depth root); lia|].
  destruct (rule =? C_SOURCEPOS); [intros H; injection H as <-; cbn [fst]; rewrite walk_mut_depth; lia|].
  destruct (rule =? C_CUSTOMCORE); [intros H; injection H as <-; cbn [fst]; rewrite depth_push, depth_mk0; lia|].
  intros H; injection H as <-. exact Hd.
Qed.

Lemma step_bound_mono b i rule d d' : (d <= d')%nat -> (step_bound b i rule d <= step_bound b i rule d')%nat.
Proof. intros H. unfold step_bound. repeat match goal with |- context [if ?c then _ else _] => destruct c end; lia. Qed.

Lemma core_fold_depth fuel bcf icf src chain : no_emph (ic_chain icf) = true -> forall st r d,
  (match st with inr x => (depth_of (fst (fst x)) <= d)%nat | inl _ => True end) ->
  fold_left (core_step fuel bcf icf src) chain st = inr r ->
  (depth_of (fst (fst r)) <= fold_left (fun d rule => step_bound (bc_maxnest bcf) (ic_maxnest icf) rule d) chain d)%nat.
Proof.
  intros Hne. induction chain as [|c t IH]; intros st r d Hd H; cbn [fold_left] in *.
  - subst st. exact Hd.
  - eapply IH; [|exact H]. destruct (core_step fuel bcf icf src st c) as [|x] eqn:E; [exact I|].
    eapply core_step_depth; eassumption.
Qed.

(* the document tree: for every parser whose inline chain has no emphasis-pair rule, the depth is bounded by
   a function of the core chain and the nesting limit alone -- never by the input *)
Theorem parse_tree_depth fuel m src d cc ic :
  snd (r_iter (md_core m)) = inr cc -> snd (r_iter (md_inline m)) = inr ic -> no_emph ic = true ->
  snd (parse fuel m src) = inr d ->
  (depth_of (d_root d) <= fold_left (fun dd rule => step_bound (md_maxnest m) (md_maxnest m) rule dd) cc 0%nat)%nat.
Proof.
  intros Hcc Hic Hne. unfold parse.
  destruct (r_iter (md_core m)) as [rc cc0]. destruct (r_iter (md_block m)) as [rb bc0]. destruct (r_iter (md_inline m)) as [ri ic0].
  cbn [snd] in *. subst cc0 ic0. cbn [bind]. destruct bc0 as [|bc]; cbn [bind]; [discriminate|]. cbv zeta.
  match goal with |- bind ?F _ = _ -> _ => destruct F as [|[[root' x] starts]] eqn:E end; cbn [bind]; [discriminate|].
  intros H. injection H as <-. cbn [d_root].
  eapply core_fold_depth in E; [exact E|exact Hne|]. cbn. lia.
Qed.
