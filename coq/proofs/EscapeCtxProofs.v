(* unescape_all is compositional: plain text passes through, and a complete reference or escape decodes to the same
   characters whatever surrounds it (property C12: what a reference denotes in a destination, title, definition or
   info string -- all decoded by unescape_all on the whole string -- does not depend on the context). *)
From MdIt Require Import Prims Tables Escape EscapeProofs RangeProofs.
From Coq Require Import Lia ZifyBool ZifyN ZifyNat.
Local Open Scope list_scope.
Local Open Scope N_scope.

Arguments N.eqb : simpl never.
Arguments N.leb : simpl never.
Arguments N.ltb : simpl never.

Lemma match_entity_re_shorter h t m rest : match_entity_re h t = Some (m, rest) -> (length rest < length t)%nat.
Proof.
  unfold match_entity_re. destruct t as [|c t1]; [discriminate|]. destruct (_ || _); [|discriminate].
  destruct (span is_alnum t1) as [run r] eqn:Es. apply span_split in Es. subst t1.
  destruct r as [|x r']; [discriminate|]. destruct (x =? 59) eqn:E.
  - assert (x = 59) by lia. subst x. destruct (_ && _); [|discriminate]. intros H. injection H as _ <-.
    cbn [length]. rewrite app_length. cbn [length]. lia.
  - destruct x as [|q]; [discriminate|]. repeat (destruct q as [q|q|]; try discriminate).
Qed.

(* enough fuel is enough *)
Lemma unescape_fuel_enough : forall f1 f2 s, (length s <= f1)%nat -> (length s <= f2)%nat -> unescape_fuel f1 s = unescape_fuel f2 s.
Proof.
  induction f1 as [|f1 IH]; intros f2 s H1 H2.
  - destruct s; [|cbn in H1; lia]. destruct f2; reflexivity.
  - destruct f2 as [|f2]; [destruct s; [reflexivity|cbn in H2; lia]|].
    destruct s as [|c t]; [reflexivity|]. cbn [length] in H1, H2. cbn [unescape_fuel].
    destruct (c =? 92).
    + destruct t as [|d t']; [f_equal; apply IH; cbn; lia|]. cbn [length] in H1, H2.
      destruct (is_ascii_punct d); f_equal; apply IH; cbn [length]; lia.
    + destruct (c =? 38).
      * destruct (match_entity_re true t) as [[m rest]|] eqn:E; [|f_equal; apply IH; lia].
        apply match_entity_re_shorter in E. destruct (replace_entity_pattern m); f_equal; apply IH; lia.
      * f_equal. apply IH; lia.
Qed.

Lemma unescape_all_fuel f s : (length s <= f)%nat -> unescape_fuel f s = unescape_all s.
Proof. intros H. unfold unescape_all. apply unescape_fuel_enough; lia. Qed.

Lemma unescape_step f c t : unescape_fuel (S f) (c :: t) =
  if c =? 92 then
    match t with
    | d :: t' => if is_ascii_punct d then d :: unescape_fuel f t' else 92 :: unescape_fuel f t
    | [] => 92 :: unescape_fuel f t
    end
  else if c =? 38 then
    match match_entity_re true t with
    | Some (m, rest) =>
      match replace_entity_pattern m with
      | Some r => r ++ unescape_fuel f rest
      | None => m ++ unescape_fuel f rest
      end
    | None => 38 :: unescape_fuel f t
    end
  else c :: unescape_fuel f t.
Proof. reflexivity. Qed.

Definition plain (c : N) : bool := negb (c =? 92) && negb (c =? 38).

Lemma unescape_plain c t : plain c = true -> unescape_all (c :: t) = c :: unescape_all t.
Proof.
  intros H. unfold plain in H. unfold unescape_all at 1. rewrite unescape_step.
  replace (c =? 92) with false by lia. replace (c =? 38) with false by lia. f_equal; try (apply unescape_all_fuel; lia).
Qed.

Lemma unescape_plain_prefix pre post : forallb plain pre = true -> unescape_all (pre ++ post) = pre ++ unescape_all post.
Proof.
  induction pre as [|c t IH]; [reflexivity|]. cbn [forallb app]. intros H. apply andb_true_iff in H. destruct H as [Hc Ht].
  rewrite (unescape_plain _ _ Hc), (IH Ht). reflexivity.
Qed.

Lemma unescape_escape_step d t : is_ascii_punct d = true -> unescape_all (92 :: d :: t) = d :: unescape_all t.
Proof.
  intros H. unfold unescape_all at 1. rewrite unescape_step. change (92 =? 92) with true. cbv iota. rewrite H. f_equal.
  apply unescape_all_fuel. cbn [length]. lia.
Qed.

Lemma unescape_entity_step t m rest : match_entity_re true t = Some (m, rest) ->
  unescape_all (38 :: t) = (match replace_entity_pattern m with Some r => r | None => m end) ++ unescape_all rest.
Proof.
  intros E. unfold unescape_all at 1. rewrite unescape_step. change (38 =? 92) with false. change (38 =? 38) with true. cbv iota.
  rewrite E. pose proof (match_entity_re_shorter _ _ _ _ E) as Hl.
  destruct (replace_entity_pattern m); f_equal; apply unescape_all_fuel; cbn [length]; lia.
Qed.

(* a complete reference is recognised whatever follows it *)
Lemma match_entity_re_complete c body post : (is_alpha c || (c =? 35)) = true -> forallb is_alnum body = true ->
  (1 <=? len body) && (len body <=? 31) = true ->
  match_entity_re true (c :: body ++ 59 :: post) = Some (38 :: c :: body ++ [59], post).
Proof.
  intros Hc Hb Hl. unfold match_entity_re. replace (is_alpha c || true && (c =? 35)) with true by (cbn [andb]; rewrite Hc; reflexivity).
  rewrite (span_app is_alnum body 59 post Hb eq_refl). rewrite Hl. reflexivity.
Qed.

(* ---- the context theorems ---- *)

(* an escaped punctuation character denotes that character, wherever it stands *)
Theorem escape_in_context pre d post : forallb plain pre = true -> is_ascii_punct d = true ->
  unescape_all (pre ++ 92 :: d :: post) = pre ++ d :: unescape_all post.
Proof. intros Hp Hd. rewrite (unescape_plain_prefix _ _ Hp), (unescape_escape_step _ _ Hd). reflexivity. Qed.

(* a well-formed numeric reference denotes the character of its code point (U+FFFD when not allowed), wherever it stands *)
Theorem numeric_in_context pre body code post : forallb plain pre = true -> numeric_code body = Some code ->
  unescape_all (pre ++ 38 :: 35 :: body ++ 59 :: post) = pre ++ code_to_str code ++ unescape_all post.
Proof.
  intros Hp H. destruct (numeric_code_shape _ _ H) as (Ha & H1 & H7).
  rewrite (unescape_plain_prefix _ _ Hp). f_equal.
  rewrite (unescape_entity_step _ _ _ (match_entity_re_complete 35 body post eq_refl Ha ltac:(lia))).
  unfold replace_entity_pattern. rewrite numeric_not_named. rewrite rev_app_distr. cbn [rev app]. rewrite rev_involutive, H. reflexivity.
Qed.

(* a named reference of the table denotes its value, wherever it stands *)
Theorem named_in_context pre c body v post : forallb plain pre = true ->
  is_alpha c = true -> forallb is_alnum body = true -> (1 <=? len body) && (len body <=? 31) = true ->
  get_entity_from_str (38 :: c :: body ++ [59]) = Some v ->
  unescape_all (pre ++ 38 :: c :: body ++ 59 :: post) = pre ++ v ++ unescape_all post.
Proof.
  intros Hp Hc Hb Hl Hv. rewrite (unescape_plain_prefix _ _ Hp). f_equal.
  rewrite (unescape_entity_step _ _ _ (match_entity_re_complete c body post ltac:(rewrite Hc; reflexivity) Hb Hl)).
  unfold replace_entity_pattern. rewrite Hv. reflexivity.
Qed.
