(* Proofs about the ordering specification of src/common/ruler.rs (property C09).
   `greedy` (model/Ruler.v) is the canonical order of the property text: repeatedly take the first
   rule in rank order that is not placed and whose predecessors are all placed. *)
From MdIt Require Import Prims Ruler.
From Coq Require Import Lia Permutation.
Local Open Scope list_scope.
Local Open Scope nat_scope.

Lemma memn_In x l : memn x l = true <-> In x l.
Proof.
  induction l as [|y t IH]; cbn [memn In]; [split; [discriminate|tauto]|].
  rewrite Bool.orb_true_iff, IH, PeanoNat.Nat.eqb_eq. split; intros [H|H]; auto.
Qed.

(* position-independent reading of the order: j is placed before i *)
Definition before (o : list nat) (j i : nat) : Prop :=
  exists l1 l2 l3, o = l1 ++ j :: l2 ++ i :: l3.

Section Greedy.
Variable ds : list item.
Variable order : list nat.

(* invariant of the selection loop: placed (newest first) has no duplicates, comes from `order`,
   and every element was ready when placed *)
Inductive good : list nat -> Prop :=
| good_nil : good []
| good_cons i placed : good placed -> In i order -> ~ In i placed ->
                       (forall j, In j (preds ds i) -> In j placed) -> good (i :: placed).

Lemma ready_spec placed i :
  ready ds placed i = true <-> ~ In i placed /\ forall j, In j (preds ds i) -> In j placed.
Proof.
  unfold ready. rewrite Bool.andb_true_iff, Bool.negb_true_iff, forallb_forall. split.
  - intros [H1 H2]. split.
    + intros H. apply memn_In in H. congruence.
    + intros j Hj. apply memn_In. apply H2. exact Hj.
  - intros [H1 H2]. split.
    + destruct (memn i placed) eqn:E; [|reflexivity]. apply memn_In in E. contradiction.
    + intros j Hj. apply memn_In. apply H2. exact Hj.
Qed.

Lemma greedy_good n : forall placed o, good placed -> greedy n ds order placed = Some o ->
  good (rev o) /\ length o = (n + length placed)%nat.
Proof.
  induction n as [|n IH]; intros placed o G H; cbn [greedy] in H.
  - injection H as <-. rewrite rev_involutive, rev_length. split; [exact G|reflexivity].
  - destruct (find (ready ds placed) order) as [i|] eqn:F; [|discriminate].
    apply find_some in F. destruct F as [Hin Hr]. apply ready_spec in Hr. destruct Hr as [Hn Hp].
    destruct (IH (i :: placed) o (good_cons i placed G Hin Hn Hp) H) as [G' L]. split; [exact G'|cbn [length] in L; lia].
Qed.

Lemma good_nodup placed : good placed -> NoDup placed /\ incl placed order.
Proof.
  induction 1 as [|i placed G [IH1 IH2] Hin Hn Hp]; [split; [constructor|intros x []]|].
  split; [constructor; assumption|]. intros x [<-|Hx]; [exact Hin|apply IH2; exact Hx].
Qed.

(* in a good list (newest first) every predecessor of an element occurs later in the list,
   i.e. earlier in placement order *)
Lemma good_preds placed : good placed ->
  forall l1 i l2, placed = l1 ++ i :: l2 -> forall j, In j (preds ds i) -> In j l2.
Proof.
  induction 1 as [|x placed G IH Hin Hn Hp]; intros l1 i l2 E j Hj.
  - destruct l1; discriminate.
  - destruct l1 as [|y l1]; cbn [app] in E; injection E as -> ->.
    + apply Hp. exact Hj.
    + eapply IH; [reflexivity|exact Hj].
Qed.

End Greedy.

(* ------------------------------------------------------------------ *)
(* soundness: the canonical order is a permutation that respects every edge *)

Lemma filter3_perm (p1 p2 p3 : nat -> bool) l :
  (forall x, In x l -> (p1 x = true /\ p2 x = false /\ p3 x = false) \/ (p1 x = false /\ p2 x = true /\ p3 x = false)
                       \/ (p1 x = false /\ p2 x = false /\ p3 x = true)) ->
  Permutation (filter p1 l ++ filter p2 l ++ filter p3 l) l.
Proof.
  induction l as [|x t IH]; intros H; [constructor|].
  assert (Ht : Permutation (filter p1 t ++ filter p2 t ++ filter p3 t) t).
  { apply IH. intros y Hy. apply H. right. exact Hy. }
  cbn [filter]. destruct (H x (or_introl eq_refl)) as [(-> & -> & ->)|[(-> & -> & ->)|(-> & -> & ->)]].
  - cbn [app]. constructor. exact Ht.
  - apply Permutation_sym. apply Permutation_cons_app. apply Permutation_sym. exact Ht.
  - apply Permutation_sym. rewrite app_assoc. apply Permutation_cons_app. rewrite <- app_assoc. apply Permutation_sym. exact Ht.
Qed.

Lemma rank_order_perm ds : Permutation (rank_order ds) (seq 0 (length ds)).
Proof.
  unfold rank_order. apply filter3_perm. intros i Hi. apply in_seq in Hi.
  destruct (nth_error ds i) as [d|] eqn:E; [|apply nth_error_None in E; lia].
  destruct (pr d); [right; left|left|right; right]; repeat split; reflexivity.
Qed.

Theorem greedy_sound ds o : greedy_rank ds = Some o ->
  Permutation o (seq 0 (length ds)) /\
  (forall i j, In i o -> edge ds j i = true -> j < length ds -> before o j i).
Proof.
  unfold greedy_rank. intros H.
  destruct (greedy_good ds (rank_order ds) (length ds) [] o (good_nil _ _) H) as [G L].
  destruct (good_nodup _ _ _ G) as [ND INC]. cbn [length] in L. rewrite PeanoNat.Nat.add_0_r in L.
  assert (P : Permutation o (seq 0 (length ds))).
  { apply Permutation_sym. apply NoDup_Permutation_bis.
    - apply seq_NoDup.
    - rewrite seq_length. lia.
    - (* o is a duplicate-free list of length n inside seq 0 n, hence contains all of it *)
      assert (ND' : NoDup o) by (apply NoDup_rev in ND; rewrite rev_involutive in ND; exact ND).
      assert (INC' : incl o (seq 0 (length ds))).
      { intros x Hx. apply (Permutation_in _ (rank_order_perm ds)). apply INC. apply in_rev in Hx. exact Hx. }
      apply NoDup_length_incl; [exact ND'|rewrite seq_length; lia|exact INC']. }
  split; [exact P|].
  intros i j Hi He Hj.
  apply in_split in Hi. destruct Hi as (a & b & ->).
  assert (Hjp : In j (preds ds i)).
  { unfold preds. apply filter_In. split; [apply in_seq; lia|exact He]. }
  (* rev o = rev b ++ i :: rev a: predecessors of i are in rev a *)
  assert (E : rev (a ++ i :: b) = rev b ++ i :: rev a) by (rewrite rev_app_distr; cbn [rev]; rewrite <- app_assoc; reflexivity).
  pose proof (good_preds ds _ _ G (rev b) i (rev a) E j Hjp) as Hja.
  apply in_rev in Hja. apply in_split in Hja. destruct Hja as (a1 & a2 & ->).
  exists a1, a2, b. rewrite <- app_assoc. reflexivity.
Qed.

(* ------------------------------------------------------------------ *)
(* completeness: the greedy selection gets stuck only if no admissible order exists *)

(* an admissible order: a duplicate-free list of all rules in which every predecessor of a rule
   occurs before it *)
Definition admissible (ds : list item) (p : list nat) : Prop :=
  NoDup p /\ (forall i, In i p <-> i < length ds) /\
  forall l1 i l2, p = l1 ++ i :: l2 -> forall j, In j (preds ds i) -> In j l1.

Lemma first_unplaced (p placed : list nat) :
  (exists x, In x p /\ ~ In x placed) ->
  exists l1 i l2, p = l1 ++ i :: l2 /\ ~ In i placed /\ forall y, In y l1 -> In y placed.
Proof.
  induction p as [|x t IH]; intros (y & Hy & Hn); [destruct Hy|].
  destruct (in_dec PeanoNat.Nat.eq_dec x placed) as [Hx|Hx].
  - destruct Hy as [<-|Hy]; [contradiction|].
    destruct (IH (ex_intro _ y (conj Hy Hn))) as (l1 & i & l2 & -> & Hi & Hl).
    exists (x :: l1), i, l2. split; [reflexivity|]. split; [exact Hi|]. intros z [<-|Hz]; [exact Hx|apply Hl; exact Hz].
  - exists [], x, t. split; [reflexivity|]. split; [exact Hx|intros z []].
Qed.

Lemma pigeon (p : list nat) : forall placed, NoDup p -> length placed < length p ->
  exists x, In x p /\ ~ In x placed.
Proof.
  induction p as [|x t IHp]; intros placed ND Hlen; [cbn in Hlen; lia|].
  inversion ND as [|? ? Hx NDt]; subst.
  destruct (in_dec PeanoNat.Nat.eq_dec x placed) as [Hin|Hout]; [|exists x; split; [left; reflexivity|exact Hout]].
  apply in_split in Hin. destruct Hin as (q1 & q2 & ->).
  destruct (IHp (q1 ++ q2) NDt) as (y & Hy & Hny).
  { rewrite app_length in *. cbn [length] in Hlen. lia. }
  exists y. split; [right; exact Hy|]. intros H. apply Hny. apply in_app_or in H. apply in_or_app.
  destruct H as [H|[H|H]]; [left; exact H|subst; contradiction|right; exact H].
Qed.

Theorem greedy_complete ds p : admissible ds p -> exists o, greedy_rank ds = Some o.
Proof.
  intros (ND & Hall & Hord). unfold greedy_rank.
  assert (G : forall n placed, good ds (rank_order ds) placed -> n + length placed = length ds ->
              exists o, greedy n ds (rank_order ds) placed = Some o).
  { induction n as [|n IH]; intros placed Gd L; cbn [greedy]; [eexists; reflexivity|].
    destruct (good_nodup _ _ _ Gd) as [NDp INCp].
    (* some rule is not placed yet *)
    assert (Hex : exists x, In x p /\ ~ In x placed).
    { apply pigeon; [exact ND|].
      assert (Pp : Permutation p (seq 0 (length ds))).
      { apply NoDup_Permutation; [exact ND|apply seq_NoDup|]. intros x. rewrite Hall, in_seq. lia. }
      rewrite (Permutation_length Pp), seq_length. lia. }
    destruct (first_unplaced p placed Hex) as (l1 & i & l2 & E & Hi & Hl).
    assert (Hr : ready ds placed i = true).
    { apply ready_spec. split; [exact Hi|]. intros j Hj. apply Hl. exact (Hord l1 i l2 E j Hj). }
    assert (Hio : In i (rank_order ds)).
    { apply (Permutation_in _ (Permutation_sym (rank_order_perm ds))). apply in_seq.
      assert (In i p) by (rewrite E; apply in_or_app; right; left; reflexivity). apply Hall in H. lia. }
    destruct (find (ready ds placed) (rank_order ds)) as [k|] eqn:F.
    - apply find_some in F. destruct F as [Hk Hkr]. apply ready_spec in Hkr. destruct Hkr as [Hk1 Hk2].
      apply IH; [constructor; assumption|cbn [length]; lia].
    - exfalso. pose proof (find_none _ _ F i Hio) as Q. congruence. }
  apply (G (length ds) []); [constructor|cbn [length]; lia].
Qed.

(* conversely the canonical order, when it exists, is admissible *)
Theorem greedy_admissible ds o : greedy_rank ds = Some o -> admissible ds o.
Proof.
  intros H. pose proof H as H0. unfold greedy_rank in H.
  destruct (greedy_good ds (rank_order ds) (length ds) [] o (good_nil _ _) H) as [G L].
  destruct (greedy_sound ds o H0) as [P _].
  split; [|split].
  - apply (Permutation_NoDup (Permutation_sym P)). apply seq_NoDup.
  - intros i. split; intros Hi.
    + apply (Permutation_in _ P) in Hi. apply in_seq in Hi. lia.
    + apply (Permutation_in _ (Permutation_sym P)). apply in_seq. lia.
  - intros l1 i l2 E j Hj.
    assert (E' : rev o = rev l2 ++ i :: rev l1) by (rewrite E, rev_app_distr; cbn [rev]; rewrite <- app_assoc; reflexivity).
    pose proof (good_preds ds _ _ G (rev l2) i (rev l1) E' j Hj) as Q. apply in_rev in Q. exact Q.
Qed.

(* an admissible order exists iff the canonical order exists: a cyclic constraint set is exactly
   one for which the selection fails *)
Corollary greedy_none_iff_unsatisfiable ds :
  greedy_rank ds = None <-> ~ exists p, admissible ds p.
Proof.
  split.
  - intros H (p & Hp). destruct (greedy_complete ds p Hp) as (o & Ho). congruence.
  - intros H. destruct (greedy_rank ds) as [o|] eqn:E; [|reflexivity]. exfalso. apply H. exists o. apply greedy_admissible. exact E.
Qed.

(* determinism: the canonical order is a function of the rule list *)
Theorem greedy_deterministic ds o1 o2 : greedy_rank ds = Some o1 -> greedy_rank ds = Some o2 -> o1 = o2.
Proof. congruence. Qed.
