(* Look-ahead (silent) mode against real parsing (property C16). *)
From Coq Require Import String.
From MdIt Require Import Prims Tables Escape NormRef Indent Mdurl LinkParse Tree Regex HtmlRe Block Inline.
From MdIt Require Import BlockProofs InlineProofs.
From Coq Require Import Lia ZifyBool ZifyN ZifyNat.
Local Open Scope list_scope.
Local Open Scope N_scope.

Arguments N.eqb : simpl never.
Arguments N.leb : simpl never.
Arguments N.ltb : simpl never.
Arguments N.add : simpl never.
Arguments N.sub : simpl never.

(* ------------------------------------------------------------------ *)
(* block rules: whatever a rule accepts in look-ahead mode it produces for real *)

Definition flag_true (x : res (bstate * bool)) : Prop :=
  match x with inr (_, b) => b = true | inl _ => True end.

Lemma flag_bind {A} (a : res A) f : (forall x, a = inr x -> flag_true (f x)) -> flag_true (bind a f).
Proof. destruct a; cbn; auto. Qed.

Ltac ft_step :=
  match goal with
  | |- flag_true (ret (_, true)) => reflexivity
  | |- flag_true (inr (_, true)) => reflexivity
  | |- flag_true (panic _) => exact I
  | |- flag_true (inl _) => exact I
  | |- flag_true (bind _ _) => apply flag_bind; intros ? ?
  | |- flag_true (match ?x with _ => _ end) => destruct x eqn:?
  end.
Ltac ft := repeat ft_step.

(* inversion of `do o <- a; ret (f o)` = inr true *)
Lemma bind_ret_true {A} (a : res A) (f : A -> bool) : (do o <- a; ret (f o)) = inr true -> exists o, a = inr o /\ f o = true.
Proof. destruct a as [e|o]; cbn; [discriminate|]. intros H. injection H as H. exists o. auto. Qed.

Lemma list_open_silent_real st v : list_open st true = inr (Some v) -> list_open st false = inr (Some v).
Proof.
  unfold list_open. cbn [andb]. destruct (is_list_kind _); [discriminate|].
  destruct (line_indent st (b_line st)) as [|ind]; cbn [bind]; [discriminate|].
  destruct (4 <=? ind)%Z; [discriminate|].
  destruct (line_rec st (b_line st)) as [|r]; cbn [bind]; [discriminate|].
  match goal with |- (if ?c then _ else _) = _ -> _ => destruct c end; [discriminate|].
  destruct (get_line st (b_line st)) as [|cur]; cbn [bind]; [discriminate|].
  destruct (skip_ordered_list_marker cur) as [p|].
  - destruct (_ && negb _); [discriminate|]. destruct (_ && all_sptab _); [discriminate|]. auto.
  - destruct (skip_bullet_list_marker cur) as [p|]; [|discriminate].
    destruct (_ && all_sptab _); [discriminate|]. auto.
Qed.

Theorem block_silent_real cfg T r st : rule_silent r st = inr true -> flag_true (rule_real cfg T r st).
Proof.
  unfold rule_silent, rule_real.
  destruct (r =? R_CODE); [discriminate|].
  destruct (r =? R_FENCE).
  { intros H. apply bind_ret_true in H. destruct H as (o & Ho & Hf). destruct o as [[[m n] params]|]; [|discriminate].
    unfold rule_fence. rewrite Ho. cbn [bind]. ft. }
  destruct (r =? R_QUOTE).
  { intros H. unfold rule_quote. rewrite H. cbn [bind negb]. ft. }
  destruct (r =? R_HR).
  { intros H. apply bind_ret_true in H. destruct H as (o & Ho & Hf). destruct o as [[m n]|]; [|discriminate].
    unfold rule_hr. rewrite Ho. cbn [bind]. ft. }
  destruct (r =? R_LIST).
  { intros H. apply bind_ret_true in H. destruct H as (o & Ho & Hf). destruct o as [v|]; [|discriminate].
    apply list_open_silent_real in Ho. unfold rule_list. rewrite Ho. cbn [bind]. ft. }
  destruct (r =? R_REF); [discriminate|].
  destruct (r =? R_HEADING).
  { intros H. apply bind_ret_true in H. destruct H as (o & Ho & Hf). destruct o as [[[lv tp] line]|]; [|discriminate].
    unfold rule_heading. rewrite Ho. cbn [bind]. ft. }
  destruct (r =? R_LHEADING); [discriminate|].
  destruct (r =? R_PARA); [discriminate|].
  destruct (r =? R_HTMLBLOCK).
  { intros H. apply bind_ret_true in H. destruct H as (o & Ho & Hf). destruct o as [[i line]|]; [|discriminate].
    unfold rule_html_block. rewrite Ho. cbn [bind]. ft. }
  destruct (_ || _); [|discriminate].
  intros H. unfold rule_custom. rewrite H. cbn [bind negb]. ft.
Qed.

(* ------------------------------------------------------------------ *)
(* inline rules in look-ahead mode leave the tree alone                  *)

Ltac hstep H :=
  match type of H with
  | (match ?x with _ => _ end) = _ => destruct x eqn:?; try discriminate H
  end.
Ltac hinv H := unfold bind, ret, panic in H; repeat hstep H.

Ltac node_same H := hinv H; injection H as <- _; reflexivity.

Lemma silent_text cfg st ss o : rule_text cfg st true = inr (ss, o) -> i_node ss = i_node st.
Proof. unfold rule_text. intros H. node_same H. Qed.
Lemma silent_newline st ss o : rule_newline st true = inr (ss, o) -> i_node ss = i_node st.
Proof. unfold rule_newline. intros H. node_same H. Qed.
Lemma silent_escape st ss o : rule_escape st true = inr (ss, o) -> i_node ss = i_node st.
Proof. unfold rule_escape. intros H. node_same H. Qed.
Lemma silent_code_pair st m ss o : rule_code_pair st m true = inr (ss, o) -> i_node ss = i_node st.
Proof. unfold rule_code_pair. intros H. node_same H. Qed.
Lemma silent_emph cfg m cs st ss o : rule_emph cfg m cs st true = inr (ss, o) -> i_node ss = i_node st.
Proof. unfold rule_emph. intros H. node_same H. Qed.
Lemma silent_autolink st ss o : rule_autolink st true = inr (ss, o) -> i_node ss = i_node st.
Proof. unfold rule_autolink. intros H. node_same H. Qed.
Lemma silent_entity st ss o : rule_entity st true = inr (ss, o) -> i_node ss = i_node st.
Proof. unfold rule_entity. intros H. node_same H. Qed.
Lemma silent_html_inline st ss o : rule_html_inline st true = inr (ss, o) -> i_node ss = i_node st.
Proof. unfold rule_html_inline. intros H. node_same H. Qed.
Lemma silent_custom st p v ss o : rule_custom_inline st p v true = inr (ss, o) -> i_node ss = i_node st.
Proof. unfold rule_custom_inline. intros H. node_same H. Qed.

Ltac lit_cases_k a tac := destruct a as [|?q]; [tac|];
  do 8 (try match goal with q : positive |- _ => destruct q as [q|q|]; try tac end).

Section SilentEngine.
Variable cfg : icfg.
Variable TK SK : istate -> res istate.
Hypothesis SK_node : forall st st', SK st = inr st' -> i_node st' = i_node st.

Lemma label_loop_node n : forall st level nested st' r,
  label_loop SK n st level nested = inr (st', r) -> i_node st' = i_node st.
Proof.
  induction n as [|n IH]; intros st level nested st' r; cbn [label_loop]; [discriminate|].
  destruct (irest st) as [|rest]; cbn [bind]; [discriminate|].
  destruct rest as [|ch t]; [intros H; injection H as <- _; reflexivity|].
  destruct (_ && _); [intros H; injection H as <- _; reflexivity|].
  destruct (SK st) as [|s1] eqn:Es; cbn [bind]; [discriminate|]. apply SK_node in Es.
  destruct (ch =? 91).
  - destruct (_ =? _); [intros H; apply IH in H; congruence|].
    destruct (negb nested); [intros H; injection H as <- _; exact Es|intros H; apply IH in H; congruence].
  - intros H; apply IH in H; congruence.
Qed.

Lemma parse_link_label_node st start nested st' r :
  parse_link_label SK st start nested = inr (st', r) -> i_node st' = i_node st.
Proof.
  unfold parse_link_label. cbv zeta. destruct (label_loop _ _ _ _ _) as [|[s1 r1]] eqn:E; cbn [bind]; [discriminate|].
  apply label_loop_node in E. intros H. injection H as <- _. cbn [i_node iset_pos fst] in *. exact E.
Qed.

Lemma parse_link_node st pos0 nested st' r :
  parse_link SK st pos0 nested = inr (st', r) -> i_node st' = i_node st.
Proof.
  unfold parse_link. destruct (parse_link_label SK st pos0 nested) as [|[s1 le]] eqn:E; cbn [bind]; [discriminate|].
  apply parse_link_label_node in E. destruct le as [label_end|]; [|intros H; injection H as <- _; exact E].
  cbv zeta. destruct (isl s1 (label_end + 1) (i_max s1)) as [|after]; cbn [bind]; [discriminate|].
  match goal with |- (match ?ir with Some _ => _ | None => _ end) = _ -> _ => destruct ir end; [intros H; injection H as <- _; exact E|].
  assert (K : forall (X : res (istate * option str * N)),
             (forall s2 ml p, X = inr (s2, ml, p) -> i_node s2 = i_node st) ->
             forall F, (forall s2 ml p, match F (s2, ml, p) with inr (s3, _) => s3 = s2 | inl _ => True end) ->
             bind X F = inr (st', r) -> i_node st' = i_node st).
  { intros X HX F HF. destruct X as [|[[s2 ml] p]]; cbn [bind]; [discriminate|]. specialize (HX s2 ml p eq_refl). specialize (HF s2 ml p).
    intros H. rewrite H in HF. subst st'. exact HX. }
  apply K.
  - intros s2 ml p. destruct after as [|a0 t0]; [intros H; injection H as <- _ _; exact E|].
    assert (D : ret (s1, @None str, label_end + 1) = inr (s2, ml, p) -> i_node s2 = i_node st) by (intros H; injection H as <- _ _; exact E).
    lit_cases_k a0 ltac:(exact D).
    destruct (parse_link_label SK s1 (label_end + 1) false) as [|[s2' e2]] eqn:E2; cbn [bind]; [discriminate|].
    apply parse_link_label_node in E2. cbn [fst snd]. destruct e2; intros H; injection H as <- _ _; congruence.
  - intros s2 ml p. cbv beta iota. destruct (ref_get _ _); reflexivity.
Qed.

Lemma rule_link_silent_node st nested offset mkk ss o :
  rule_link TK SK st true nested offset mkk = inr (ss, o) -> i_node ss = i_node st.
Proof.
  unfold rule_link. cbv zeta. destruct (parse_link SK st (i_pos st + offset) nested) as [|[s1 pl]] eqn:E; cbn [bind]; [discriminate|].
  apply parse_link_node in E. destruct pl as [p|]; [|intros H; injection H as <- _; exact E].
  destruct (_ <=? _); [|discriminate]. intros H; injection H as <- _; exact E.
Qed.

Lemma run_rule_silent_node r st ss o : run_rule cfg TK SK r st true = inr (ss, o) -> i_node ss = i_node st.
Proof.
  unfold run_rule.
  repeat match goal with |- (if ?b then _ else _) = _ -> _ => destruct b end;
    try solve [intros H; first [apply silent_text in H | apply silent_newline in H | apply silent_escape in H
      | apply silent_code_pair in H | apply silent_emph in H | apply silent_autolink in H | apply silent_entity in H
      | apply silent_html_inline in H | apply silent_custom in H]; exact H];
    try (intros H; injection H as <- _; reflexivity).
  - destruct (irest st) as [|rest]; cbn [bind]; [discriminate|]. destruct rest as [|ch t]; [discriminate|].
    destruct (ch =? 91); [apply (rule_link_silent_node st false 0 KLink)|intros H; injection H as <- _; reflexivity].
  - destruct (irest st) as [|rest]; cbn [bind]; [discriminate|].
    assert (D : ret (st, @None N) = inr (ss, o) -> i_node ss = i_node st) by (intros H; injection H as <- _; reflexivity).
    destruct rest as [|a0 t0]; [exact D|]. lit_cases_k a0 ltac:(exact D).
    destruct t0 as [|a1 t1]; [exact D|]. lit_cases_k a1 ltac:(exact D).
    apply (rule_link_silent_node st true 1 KImage).
Qed.

Lemma try_rules_silent_node bump chain : forall st ss o,
  try_rules cfg TK SK chain st true bump = inr (ss, o) -> i_node ss = i_node st.
Proof.
  induction chain as [|r t IH]; intros st ss o; cbn [try_rules]; [intros H; injection H as <- _; reflexivity|].
  destruct (run_rule _ _ _ _ _ _) as [|[s1 o1]] eqn:E; cbn [bind]; [discriminate|]. apply run_rule_silent_node in E.
  cbn [fst snd]. assert (E' : i_node (if bump then iset_level s1 (i_level st) else s1) = i_node st).
  { destruct bump; cbn [i_node iset_level] in *; exact E. }
  destruct o1; [intros H; injection H as <- _; exact E'|]. intros H. apply IH in H. congruence.
Qed.

Lemma skip_token_body_node st st' : skip_token_body cfg TK SK st = inr st' -> i_node st' = i_node st.
Proof.
  unfold skip_token_body. cbv zeta. destruct (cache_get st (i_pos st)); [intros H; injection H as <-; reflexivity|].
  destruct (_ <? _); [|intros H; injection H as <-; reflexivity].
  destruct (try_rules _ _ _ _ _ _ _) as [|[s1 o]] eqn:E; cbn [bind]; [discriminate|]. apply try_rules_silent_node in E. cbn [fst snd].
  destruct o; cbn [bind ret].
  - intros H; injection H as <-. cbn [i_node iset_cache iset_pos]. exact E.
  - destruct (first_char_len s1); cbn [bind]; [discriminate|]. intros H; injection H as <-. cbn [i_node iset_cache iset_pos]. exact E.
Qed.
End SilentEngine.

(* skip_token (the look-ahead used while scanning link labels), at any fuel, never touches the tree *)
Theorem iskip_node_untouched cfg : forall f st st', iskip f cfg st = inr st' -> i_node st' = i_node st.
Proof.
  induction f as [|f IH]; intros st st'; cbn [iskip]; [discriminate|].
  apply skip_token_body_node. exact IH.
Qed.

(* ------------------------------------------------------------------ *)
(* look-ahead and real parsing agree on the extent of the construct       *)

Definition len_agree (xs xr : res (istate * option N)) : Prop :=
  forall ss n, xs = inr (ss, Some n) -> match xr with inr (_, o) => o = Some n | inl _ => True end.

Ltac gstep :=
  match goal with
  | |- match (match ?x with _ => _ end) with _ => _ end => destruct x eqn:?
  | |- match inr (_, Some ?n) with _ => _ end => reflexivity
  | |- match inl _ with _ => _ end => exact I
  | |- True => exact I
  | |- ?a = ?a => reflexivity
  end.
Ltac agree_tac := intros ss n H; unfold bind, ret, panic in *; repeat hstep H;
  repeat gstep; try (let Hn := fresh "Hn" in injection H as _ Hn; rewrite <- Hn; reflexivity).

Lemma agree_text cfg st : len_agree (rule_text cfg st true) (rule_text cfg st false).
Proof. unfold rule_text. agree_tac. Qed.
Lemma agree_newline st : len_agree (rule_newline st true) (rule_newline st false).
Proof. unfold rule_newline. agree_tac. Qed.
Lemma agree_escape st : len_agree (rule_escape st true) (rule_escape st false).
Proof. unfold rule_escape. agree_tac. Qed.
Lemma agree_code_pair st m : len_agree (rule_code_pair st m true) (rule_code_pair st m false).
Proof. unfold rule_code_pair. agree_tac. Qed.
Lemma agree_emph cfg m cs st : len_agree (rule_emph cfg m cs st true) (rule_emph cfg m cs st false).
Proof. unfold rule_emph. intros ss n H. discriminate. Qed.
Lemma agree_autolink st : len_agree (rule_autolink st true) (rule_autolink st false).
Proof. unfold rule_autolink. agree_tac. Qed.
Lemma agree_entity st : len_agree (rule_entity st true) (rule_entity st false).
Proof. unfold rule_entity. agree_tac. Qed.
Lemma agree_html_inline st : len_agree (rule_html_inline st true) (rule_html_inline st false).
Proof. unfold rule_html_inline. agree_tac. Qed.
Lemma agree_custom st p v : len_agree (rule_custom_inline st p v true) (rule_custom_inline st p v false).
Proof. unfold rule_custom_inline. agree_tac. Qed.

(* an accepted look-ahead fixes where real parsing of the same rule at the same place ends *)
Definition end_agree (xs xr : res (istate * option N)) : Prop :=
  forall ss n, xs = inr (ss, Some n) ->
    match xr with
    | inr (sr, Some n') => i_pos sr + n' = i_pos ss + n
    | inr (_, None) => False
    | inl _ => True
    end.

Lemma end_agree_simple st xs xr :
  gspec true (rpost_i st) xs -> gspec true (rpost_i st) xr -> len_agree xs xr -> end_agree xs xr.
Proof.
  intros Hs Hr Ha ss n E. specialize (Ha ss n E). subst xs. destruct xr as [e|[sr o]]; [exact I|]. subst o.
  cbn in Hs, Hr. destruct Hs as [(_ & _ & _ & _ & P1) _]. destruct Hr as [(_ & _ & _ & _ & P2) _]. cbn [fst] in *. congruence.
Qed.

Lemma end_agree_link TK SK st nested offset mkk :
  end_agree (rule_link TK SK st true nested offset mkk) (rule_link TK SK st false nested offset mkk).
Proof.
  intros ss n. unfold rule_link. cbv zeta.
  destruct (parse_link SK st (i_pos st + offset) nested) as [|[s1 pl]]; cbn [bind]; [discriminate|].
  destruct pl as [p|]; [|discriminate].
  destruct (i_pos s1 <=? pl_end p) eqn:E1; [|discriminate]. intros H. injection H as <- <-.
  match goal with |- match bind ?a _ with _ => _ end => destruct a as [|inner'] end; cbn [bind]; [exact I|].
  match goal with |- match bind ?a _ with _ => _ end => destruct a as [|mp] end; cbn [bind]; [exact I|].
  match goal with |- match (if ?c then _ else _) with _ => _ end => destruct c eqn:E2 end; [|exact I].
  cbn [ret]. lia.
Qed.

Lemma end_agree_pair_tok TK st m :
  end_agree (rule_code_pair_tok TK st m true) (rule_code_pair_tok TK st m false).
Proof.
  intros ss n. unfold rule_code_pair_tok.
  destruct (irest st) as [|rest]; cbn [bind]; [discriminate|]. destruct rest as [|ch t]; [discriminate|].
  destruct (negb (ch =? m)) eqn:Em; [discriminate|].
  destruct (match rev (trailing_text_get st) with x :: _ => x =? m | [] => false end); [discriminate|].
  destruct (get_bt st m) as [scanned maxv]. destruct (_ && _); [discriminate|].
  destruct (code_scan _ _ _ _ _ _) as [|[o mv]] eqn:Es; cbn [bind]; [discriminate|]. cbn [fst snd].
  destruct o as [[ms me]|]; [|discriminate]. apply code_scan_ge in Es.
  intros H. injection H as <- <-. cbn [i_pos set_bt iset_bt].
  destruct (isl st _ ms) as [|raw]; cbn [bind]; [exact I|]. cbv zeta.
  destruct (iget_map st (i_pos st) me) as [|mp]; cbn [bind]; [exact I|].
  match goal with |- match bind ?a _ with _ => _ end => destruct a as [|inner'] end; cbn [bind]; [exact I|].
  cbn [i_pos]. destruct (i_pos inner' <=? me) eqn:E; [|exact I]. cbn [ret i_pos]. lia.
Qed.

Theorem silent_real_same_end cfg TK SK r st :
  end_agree (run_rule cfg TK SK r st true) (run_rule cfg TK SK r st false).
Proof.
  unfold run_rule.
  repeat match goal with |- end_agree (if ?b then _ else _) _ => destruct b end;
    try solve [apply (end_agree_simple st); auto using rule_text_spec, rule_newline_spec, rule_escape_spec, rule_code_pair_spec,
                 rule_emph_spec, rule_autolink_spec, rule_entity_spec, rule_html_inline_spec, rule_custom_inline_spec,
                 agree_text, agree_newline, agree_escape, agree_code_pair, agree_emph, agree_autolink, agree_entity,
                 agree_html_inline, agree_custom];
    try (intros ss n H; discriminate H); try solve [apply end_agree_pair_tok].
  - destruct (irest st) as [|rest]; cbn [bind]; [intros ss n H; discriminate|]. destruct rest as [|ch t]; [intros ss n H; discriminate|].
    destruct (ch =? 91); [apply end_agree_link|intros ss n H; discriminate].
  - destruct (irest st) as [|rest]; cbn [bind]; [intros ss n H; discriminate|].
    assert (D : end_agree (ret (st, @None N)) (ret (st, @None N))) by (intros ss n H; discriminate).
    destruct rest as [|a0 t0]; [exact D|]. lit_cases_k a0 ltac:(exact D).
    destruct t0 as [|a1 t1]; [exact D|]. lit_cases_k a1 ltac:(exact D).
    apply end_agree_link.
Qed.

Theorem silent_rule_node_untouched cfg f r st ss o :
  run_rule cfg (itokenize f cfg) (iskip f cfg) r st true = inr (ss, o) -> i_node ss = i_node st.
Proof. intros H. eapply run_rule_silent_node; [apply iskip_node_untouched|exact H]. Qed.
