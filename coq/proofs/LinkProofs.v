(* Proofs for C04: what a browser reads from an href/src attribute holding a normalised link is
   the normalised link itself, and validate_link rejects exactly the dangerous scheme prefixes *)
From Coq Require Import String.
From MdIt Require Import Prims Tables NormRef Mdurl Escape Regex HtmlRe MdurlProofs RenderProofs.
From Coq Require Import Lia ZifyBool ZifyN ZifyNat.
Local Open Scope string_scope.
Local Open Scope list_scope.
Local Open Scope N_scope.

Arguments N.eqb : simpl never.
Arguments N.leb : simpl never.
Arguments N.ltb : simpl never.

(* ------------------------------------------------------------------ *)
(* 1. the bytes of a normalised link                                    *)

(* side condition on the safe set of normalize_link (main.rs:71-74): printable ASCII only *)
Lemma safe_printable : forallb (fun b => negb (aset_has normalize_safe b) || ((32 <? b) && (b <? 127)))
                               (map N.of_nat (seq 0 128)) = true.
Proof. vm_compute. reflexivity. Qed.

Definition printable (b : N) : bool := (32 <? b) && (b <? 127).

Lemma wf_enc_printable l : wf_enc normalize_safe l -> forallb printable l = true.
Proof.
  induction 1 as [|c t Hc Hs _ IH|h1 h2 t H1 H2 _ IH]; [reflexivity| |].
  - cbn [forallb]. rewrite IH, andb_true_r.
    pose proof safe_printable as S. rewrite forallb_forall in S.
    assert (Hin : In c (map N.of_nat (seq 0 128))).
    { apply in_map_iff. exists (N.to_nat c). split; [lia|apply in_seq; lia]. }
    specialize (S c Hin). rewrite Hs in S. exact S.
  - cbn [forallb]. rewrite IH, andb_true_r.
    unfold printable, is_hex, is_digit, between in *. lia.
Qed.

Theorem normalize_printable s : bytes_ok s -> forallb printable (normalize_link s) = true.
Proof. intros H. apply wf_enc_printable, normalize_link_grammar, H. Qed.

(* ------------------------------------------------------------------ *)
(* 2. how a browser reads the attribute (WHATWG URL parser, first steps) *)

Fixpoint strip_leading_c0 (s : str) : str :=
  match s with c :: t => if c <=? 32 then strip_leading_c0 t else s | [] => [] end.
Definition remove_tab_nl (s : str) : str := filter (fun c => negb ((c =? 9) || (c =? 10) || (c =? 13))) s.

Definition browser_view (attr : str) : str :=
  remove_tab_nl (strip_leading_c0 (unescape_html (length attr) attr)).

Lemma strip_printable s : forallb printable s = true -> strip_leading_c0 s = s.
Proof. destruct s as [|c t]; [reflexivity|]. cbn [forallb strip_leading_c0]. unfold printable. intros H. replace (c <=? 32) with false by lia. reflexivity. Qed.

Lemma remove_printable s : forallb printable s = true -> remove_tab_nl s = s.
Proof.
  unfold remove_tab_nl. induction s as [|c t IH]; [reflexivity|]. cbn [forallb filter]. intros H.
  apply andb_true_iff in H. destruct H as [Hc Ht]. unfold printable in Hc.
  replace (negb ((c =? 9) || (c =? 10) || (c =? 13))) with true by lia. f_equal. apply IH. exact Ht.
Qed.

(* the attribute value written by the serializer is escape_html of the URL (RenderProofs.attrs_chunk);
   the browser recovers exactly the normalised link: no entity, whitespace or control-character trick survives *)
Theorem browser_sees_normalized s : bytes_ok s ->
  browser_view (escape_html (normalize_link s)) = normalize_link s.
Proof.
  intros H. unfold browser_view. rewrite unescape_escape by lia.
  rewrite strip_printable, remove_printable; auto using normalize_printable.
Qed.

(* ------------------------------------------------------------------ *)
(* 3. validate_link                                                     *)

Fixpoint starts_ci (w s : list N) : bool :=
  match w, s with
  | [], _ => true
  | p :: w', c :: s' => ci_eq p c && starts_ci w' s'
  | _ :: _, [] => false
  end.

Lemma rmatch_lit_ci w : forall s k,
  rmatch (rlit_ci w) s k = if starts_ci w s then k (drop (length w) s) else None.
Proof.
  unfold rlit_ci, rseq. induction w as [|p w IH]; intros s k; cbn [map fold_right rmatch starts_ci length drop]; [reflexivity|].
  destruct s as [|c t]; [reflexivity|]. unfold rchar_ci at 1. cbn [rmatch]. destruct (ci_eq p c); [|reflexivity]. apply IH.
Qed.

Definition is_some {A} (o : option A) : bool := match o with Some _ => true | None => false end.

Lemma ralt_match (rs : list re) s k :
  is_some (rmatch (ralt rs) s k) = existsb (fun r => is_some (rmatch r s k)) rs.
Proof.
  induction rs as [|r t IH]; [destruct s; reflexivity|]. destruct t as [|r2 t2].
  - cbn [ralt existsb]. rewrite orb_false_r. reflexivity.
  - change (ralt (r :: r2 :: t2)) with (RAlt r (ralt (r2 :: t2))). cbn [rmatch].
    change (existsb (fun r0 => is_some (rmatch r0 s k)) (r :: r2 :: t2))
      with (is_some (rmatch r s k) || existsb (fun r0 => is_some (rmatch r0 s k)) (r2 :: t2)).
    rewrite <- IH. unfold orelse. destruct (rmatch r s k); reflexivity.
Qed.

Lemma starts_ci_app w1 w2 s : starts_ci (w1 ++ w2) s = starts_ci w1 s && starts_ci w2 (drop (length w1) s).
Proof.
  revert s. induction w1 as [|p w IH]; intros s; cbn [app starts_ci length drop]; [reflexivity|].
  destruct s as [|c t]; [destruct (w ++ w2); reflexivity|]. rewrite IH, andb_assoc. reflexivity.
Qed.

Definition bad_words : list string := ["vbscript"; "javascript"; "file"; "data"].
Definition good_types : list string := ["gif"; "png"; "jpeg"; "webp"].

(* u starts, ignoring letter case, with word w, followed by exactly the character c *)
Definition starts_ci_then (w : list N) (c : N) (u : list N) : bool :=
  starts_ci w u && match drop (length w) u with x :: _ => x =? c | [] => false end.

(* the URL starts with a blacklisted scheme followed by ':' *)
Definition bad_scheme (u : list N) : bool := existsb (fun w => starts_ci_then (bs w) 58 u) bad_words.
(* ... with data:image/<allowed type>; *)
Definition good_data (u : list N) : bool :=
  starts_ci (bs "data:image/") u &&
  existsb (fun t => starts_ci_then (bs t) 59 (drop (length (bs "data:image/")) u)) good_types.

Lemma existsb_map {A B} (f : B -> bool) (g : A -> B) l : existsb f (map g l) = existsb (fun x => f (g x)) l.
Proof. induction l as [|x t IH]; [reflexivity|]. cbn [map existsb]. rewrite IH. reflexivity. Qed.

Lemma names_then_char (ws : list string) (c : N) cs :
  is_some (rmatch (RSeq (re_names_ci ws) (rchar c)) cs (fun x => Some x)) =
  existsb (fun w => starts_ci_then (bs w) c cs) ws.
Proof.
  unfold re_names_ci. cbn [rmatch]. rewrite ralt_match, existsb_map.
  induction ws as [|w t IH]; [reflexivity|]. cbn [existsb]. rewrite IH. f_equal.
  rewrite rmatch_lit_ci. unfold starts_ci_then. destruct (starts_ci (bs w) cs); [|reflexivity].
  cbn [andb]. unfold rchar. cbn [rmatch]. destruct (drop (length (bs w)) cs) as [|x r]; [reflexivity|].
  destruct (x =? c); reflexivity.
Qed.

(* characters of an ASCII string are its bytes *)
Lemma chars_fuel_ascii s : forall fuel, (length s <= fuel)%nat -> forallb (fun b => b <? 128) s = true -> chars_fuel fuel s = s.
Proof.
  induction s as [|c t IH]; intros fuel Hf H; [destruct fuel; reflexivity|].
  destruct fuel as [|f]; [cbn in Hf; lia|]. cbn [forallb] in H. apply andb_true_iff in H. destruct H as [Hc Ht].
  cbn [chars_fuel decode1]. rewrite Hc. change (dropN 1 (c :: t)) with t. f_equal. apply IH; [cbn in Hf; lia|exact Ht].
Qed.
Lemma chars_ascii s : forallb (fun b => b <? 128) s = true -> chars s = s.
Proof. intros H. unfold chars. apply chars_fuel_ascii; [lia|exact H]. Qed.

(* validate_link on ASCII text: accepted unless it starts with a blacklisted scheme, image data excepted *)
Theorem validate_link_spec u : forallb (fun b => b <? 128) u = true ->
  validate_link u = negb (bad_scheme u) || good_data u.
Proof.
  intros H. unfold validate_link. rewrite (chars_ascii u H). f_equal.
  - f_equal. unfold is_match_prefix, match_prefix, re_bad_proto.
    change (match ?x with Some _ => true | None => false end) with (is_some x).
    apply names_then_char.
  - unfold is_match_prefix, match_prefix, re_good_data, good_data.
    change (match ?x with Some _ => true | None => false end) with (is_some x).
    change (rseq [rlit_ci (bs "data:image/"); re_names_ci ["gif"; "png"; "jpeg"; "webp"]; rchar 59])
      with (RSeq (rlit_ci (bs "data:image/")) (RSeq (re_names_ci ["gif"; "png"; "jpeg"; "webp"]) (RSeq (rchar 59) REps))).
    cbn [rmatch]. rewrite rmatch_lit_ci. destruct (starts_ci (bs "data:image/") u); [|reflexivity]. cbn [andb].
    (* the trailing REps does not matter *)
    assert (E : forall cs, is_some (rmatch (re_names_ci good_types) cs (fun s' => rmatch (rchar 59) s' (fun s'0 => Some s'0)))
                         = existsb (fun w => starts_ci_then (bs w) 59 cs) good_types).
    { intros cs. exact (names_then_char good_types 59 cs). }
    unfold good_types in E. rewrite <- E. reflexivity.
Qed.

(* ------------------------------------------------------------------ *)
(* 4. the pipeline normalise -> validate -> escape -> browser           *)

Definition browser_dangerous (attr : str) : bool :=
  let v := browser_view attr in bad_scheme v && negb (good_data v).

Lemma forallb_impl {A} (p q : A -> bool) l : (forall x, p x = true -> q x = true) -> forallb p l = true -> forallb q l = true.
Proof. intros H. induction l as [|x t IH]; [reflexivity|]. cbn [forallb]. intros G. apply andb_true_iff in G. destruct G. rewrite (H x), IH; auto. Qed.

Lemma printable_ascii l : forallb printable l = true -> forallb (fun b => b <? 128) l = true.
Proof. apply forallb_impl. unfold printable. intros x. lia. Qed.

Theorem validated_link_not_dangerous s : bytes_ok s ->
  validate_link (normalize_link s) = true ->
  browser_dangerous (escape_html (normalize_link s)) = false.
Proof.
  intros Hs Hv. unfold browser_dangerous. rewrite (browser_sees_normalized s Hs).
  rewrite (validate_link_spec _ (printable_ascii _ (normalize_printable s Hs))) in Hv.
  destruct (bad_scheme (normalize_link s)), (good_data (normalize_link s)); cbn in *; congruence.
Qed.
