// Tree dump, recording renderer, `parse` and `walk` commands.
use markdown_it::{MarkdownIt, Node, Renderer};
use markdown_it::parser::core::Root;
use markdown_it::parser::inline::{Text, TextSpecial, InlineRoot};
use markdown_it::generics::inline::emph_pair::EmphMarker;
use markdown_it::plugins::cmark::block::paragraph::Paragraph;
use markdown_it::plugins::cmark::block::heading::ATXHeading;
use markdown_it::plugins::cmark::block::lheading::SetextHeader;
use markdown_it::plugins::cmark::block::hr::ThematicBreak;
use markdown_it::plugins::cmark::block::code::CodeBlock;
use markdown_it::plugins::cmark::block::fence::CodeFence;
use markdown_it::plugins::cmark::block::blockquote::Blockquote;
use markdown_it::plugins::cmark::block::list::{OrderedList, BulletList, ListItem};
use markdown_it::plugins::cmark::inline::newline::{Hardbreak, Softbreak};
use markdown_it::plugins::cmark::inline::backticks::CodeInline;
use markdown_it::plugins::cmark::inline::emphasis::{Em, Strong};
use markdown_it::plugins::cmark::inline::link::Link;
use markdown_it::plugins::cmark::inline::image::Image;
use markdown_it::plugins::cmark::inline::autolink::Autolink;
use markdown_it::plugins::extra::inline::strikethrough::Strikethrough;
use markdown_it::plugins::html::html_block::HtmlBlock;
use markdown_it::plugins::html::html_inline::HtmlInline;
use crate::{hex, unhex_str};
use crate::custom;

fn h(s: &str) -> String { hex(s.as_bytes()) }
fn ho(s: &Option<String>) -> String { match s { None => "none".into(), Some(x) => format!("s{}", hex(x.as_bytes())) } }

pub fn kind_of(node: &Node) -> String {
    if node.is::<Root>() { return "Root()".into(); }
    if node.is::<Paragraph>() { return "Paragraph()".into(); }
    if let Some(x) = node.cast::<ATXHeading>() { return format!("ATXHeading({})", x.level); }
    if let Some(x) = node.cast::<SetextHeader>() { return format!("SetextHeader({},{})", x.level, x.marker as u32); }
    if let Some(x) = node.cast::<ThematicBreak>() { return format!("ThematicBreak({},{})", x.marker as u32, x.marker_len); }
    if let Some(x) = node.cast::<CodeBlock>() { return format!("CodeBlock({})", h(&x.content)); }
    if let Some(x) = node.cast::<CodeFence>() {
        return format!("CodeFence({},{},{},{},{})", h(&x.info), x.marker as u32, x.marker_len, h(&x.content), h(x.lang_prefix));
    }
    if node.is::<Blockquote>() { return "Blockquote()".into(); }
    if let Some(x) = node.cast::<BulletList>() { return format!("BulletList({})", x.marker as u32); }
    if let Some(x) = node.cast::<OrderedList>() { return format!("OrderedList({},{})", x.start, x.marker as u32); }
    if node.is::<ListItem>() { return "ListItem()".into(); }
    if let Some(x) = node.cast::<HtmlBlock>() { return format!("HtmlBlock({})", h(&x.content)); }
    if let Some(x) = node.cast::<Text>() { return format!("Text({})", h(&x.content)); }
    if let Some(x) = node.cast::<TextSpecial>() { return format!("TextSpecial({},{},{})", h(&x.content), h(&x.markup), x.info); }
    if node.is::<Softbreak>() { return "Softbreak()".into(); }
    if node.is::<Hardbreak>() { return "Hardbreak()".into(); }
    if let Some(x) = node.cast::<CodeInline>() { return format!("CodeInline({},{})", x.marker as u32, x.marker_len); }
    if let Some(x) = node.cast::<Em>() { return format!("Em({})", x.marker as u32); }
    if let Some(x) = node.cast::<Strong>() { return format!("Strong({})", x.marker as u32); }
    if let Some(x) = node.cast::<Strikethrough>() { return format!("Strikethrough({})", x.marker as u32); }
    if let Some(x) = node.cast::<Link>() { return format!("Link({},{})", h(&x.url), ho(&x.title)); }
    if let Some(x) = node.cast::<Image>() { return format!("Image({},{})", h(&x.url), ho(&x.title)); }
    if let Some(x) = node.cast::<Autolink>() { return format!("Autolink({})", h(&x.url)); }
    if let Some(x) = node.cast::<HtmlInline>() { return format!("HtmlInline({})", h(&x.content)); }
    if let Some(x) = node.cast::<InlineRoot>() {
        let m: Vec<String> = x.mapping.iter().map(|(a, b)| format!("{}>{}", a, b)).collect();
        return format!("InlineRoot({},{})", h(&x.content), m.join("+"));
    }
    if let Some(x) = node.cast::<EmphMarker>() {
        return format!("EmphMarker({},{},{},{},{})", x.marker as u32, x.length, x.remaining, x.open as u32, x.close as u32);
    }
    if let Some(s) = custom::kind_of_custom(node) { return s; }
    let name = node.name();
    if name.ends_with("::Empty") { return "Empty()".into(); }
    format!("Unknown({})", hex(name.as_bytes()))
}

pub fn dump_tree(root: &Node) -> String {
    let mut out: Vec<String> = Vec::new();
    // iterative pre-order walk so that the dumper itself cannot overflow the stack
    let mut stack: Vec<(&Node, u32)> = vec![(root, 0)];
    while let Some((node, depth)) = stack.pop() {
        let map = match node.srcmap {
            Some(m) => { let (a, b) = m.get_byte_offsets(); format!("{}-{}", a, b) }
            None => "none".into(),
        };
        let attrs: Vec<String> = node.attrs.iter().map(|(k, v)| format!("{}={}", k, h(v))).collect();
        out.push(format!("{}:{}@{}{{{}}}", depth, kind_of(node), map, attrs.join(",")));
        for c in node.children.iter().rev() { stack.push((c, depth + 1)); }
    }
    out.join(";")
}

pub fn tree_depth(root: &Node) -> u32 {
    let mut max = 0;
    let mut stack: Vec<(&Node, u32)> = vec![(root, 0)];
    while let Some((node, depth)) = stack.pop() {
        if depth > max { max = depth; }
        for c in node.children.iter() { stack.push((c, depth + 1)); }
    }
    max
}

// Independent implementation of the public Renderer interface: records the events.
pub struct Recorder { pub ev: Vec<String> }

fn attrs_str(attrs: &[(&str, String)]) -> String {
    attrs.iter().map(|(k, v)| format!("{}={}", k, h(v))).collect::<Vec<_>>().join(",")
}

impl Renderer for Recorder {
    fn open(&mut self, tag: &str, attrs: &[(&str, String)]) { self.ev.push(format!("o:{}:{}", tag, attrs_str(attrs))); }
    fn close(&mut self, tag: &str) { self.ev.push(format!("c:{}", tag)); }
    fn self_close(&mut self, tag: &str, attrs: &[(&str, String)]) { self.ev.push(format!("s:{}:{}", tag, attrs_str(attrs))); }
    fn contents(&mut self, nodes: &[Node]) { for n in nodes { n.node_value.render(n, self); } }
    fn cr(&mut self) { self.ev.push("n".into()); }
    fn text(&mut self, text: &str) { self.ev.push(format!("t:{}", h(text))); }
    fn text_raw(&mut self, text: &str) { self.ev.push(format!("r:{}", h(text))); }
}

pub fn add_plugin(md: &mut MarkdownIt, c: char) {
    use markdown_it::plugins::cmark::{inline, block};
    match c {
        'n' => inline::newline::add(md),
        'e' => inline::escape::add(md),
        'b' => inline::backticks::add(md),
        'm' => inline::emphasis::add(md),
        'l' => inline::link::add(md),
        'i' => inline::image::add(md),
        'a' => inline::autolink::add(md),
        't' => inline::entity::add(md),
        'c' => block::code::add(md),
        'f' => block::fence::add(md),
        'F' => block::fence::add_with_lang_prefix(md, "lang-"),
        'q' => block::blockquote::add(md),
        'h' => block::hr::add(md),
        'u' => block::list::add(md),
        'r' => block::reference::add(md),
        'H' => block::heading::add(md),
        'L' => block::lheading::add(md),
        'p' => block::paragraph::add(md),
        's' => markdown_it::plugins::extra::inline::strikethrough::add(md),
        'x' => markdown_it::plugins::html::html_inline::add(md),
        'X' => markdown_it::plugins::html::html_block::add(md),
        'S' => markdown_it::plugins::sourcepos::add(md),
        // composite shorthands
        'C' => markdown_it::plugins::cmark::add(md),
        'W' => markdown_it::plugins::html::add(md),
        // custom test rules (harness-defined, contract-conforming)
        _ => custom::add_custom(md, c),
    }
}

pub fn build_md(cfg: &str, nest: u32) -> MarkdownIt {
    let mut md = MarkdownIt::new();
    md.max_nesting = nest;
    for c in cfg.chars() { if c != '-' { add_plugin(&mut md, c); } }
    md
}

#[cfg(markdown_it_verif)]
fn gauge_reset() { markdown_it::verif::reset_gauge(); }
#[cfg(markdown_it_verif)]
fn gauge_max() -> String { markdown_it::verif::max_gauge().to_string() }
#[cfg(not(markdown_it_verif))]
fn gauge_reset() {}
#[cfg(not(markdown_it_verif))]
fn gauge_max() -> String { "na".into() }

#[cfg(markdown_it_verif)]
fn probe_start(on: bool) { markdown_it::verif::set_probe(on); }
#[cfg(markdown_it_verif)]
fn probe_result() -> String {
    let (calls, log) = markdown_it::verif::probe_take();
    markdown_it::verif::set_probe(false);
    format!("{}:{}:{}", calls, log.len(), log.first().map(|s| hex(s.as_bytes())).unwrap_or_else(|| "-".into()))
}
#[cfg(not(markdown_it_verif))]
fn probe_start(_on: bool) {}
#[cfg(not(markdown_it_verif))]
fn probe_result() -> String { "na".into() }

pub fn parse_report(md: &MarkdownIt, src: &str, flags: &str) -> String {
    gauge_reset();
    let probing = flags.contains('P');
    if probing { probe_start(true); }
    let root = md.parse(src);
    let probe = if probing { Some(probe_result()) } else { None };
    let gauge = gauge_max();
    let tree1 = dump_tree(&root);
    let depth = tree_depth(&root);
    let mut res = format!("ok depth={} gauge={}", depth, gauge);
    if let Some(p) = probe { res.push_str(&format!(" probe={}", p)); }
    if flags.contains('T') { res.push_str(&format!(" tree={}", tree1)); }
    if flags.contains('R') {
        let dbg_before = if depth <= 150 { format!("{:?}", root) } else { String::new() };
        let html = root.render();
        let xhtml = root.xrender();
        let html2 = root.render();
        let mut rec = Recorder { ev: vec![] };
        root.node_value.render(&root, &mut rec);
        let tree2 = dump_tree(&root);
        let mut pure = html == html2 && tree1 == tree2;
        if depth <= 150 {
            // rendering must not write anything into the tree, private fields included: compare the Debug form of a
            // freshly parsed tree with the rendered one, and render an edited tree against an edited fresh tree
            let fresh = md.parse(src);
            if format!("{:?}", root) != dbg_before { pure = false; }
            let mut a = root;
            let mut b = fresh;
            let edit = |n: &mut Node, _d: u32| {
                if let Some(t) = n.cast_mut::<markdown_it::parser::inline::Text>() { t.content.push('!'); }
            };
            a.walk_mut(edit);
            b.walk_mut(edit);
            if a.render() != b.render() || a.xrender() != b.xrender() { pure = false; }
            res.push_str(&format!(" html={} xhtml={} pure={}", h(&html), h(&xhtml), pure as u32));
            if flags.contains('E') { res.push_str(&format!(" ev={}", rec.ev.join("|"))); }
            if flags.contains('W') {
                let mut n = 0u64; let mut maxd = 0u32;
                let top = stack_mark(); let mut used = 0usize;
                a.walk(|_, d| { n += 1; if d > maxd { maxd = d; } used = used.max(top.saturating_sub(stack_mark())); });
                a.walk_mut(|_, _| { used = used.max(top.saturating_sub(stack_mark())); });
                res.push_str(&format!(" walk={}/{} wstk={}", n, maxd, used));
            }
            return res;
        }
        res.push_str(&format!(" html={} xhtml={} pure={}", h(&html), h(&xhtml), pure as u32));
        if flags.contains('E') { res.push_str(&format!(" ev={}", rec.ev.join("|"))); }
    }
    if flags.contains('W') {
        // exercise the recursive walk on the result (C02: walk must survive)
        let mut n = 0u64; let mut maxd = 0u32;
        let top = stack_mark(); let mut used = 0usize;
        root.walk(|_, d| { n += 1; if d > maxd { maxd = d; } used = used.max(top.saturating_sub(stack_mark())); });
        let mut root = root;
        root.walk_mut(|_, _| { used = used.max(top.saturating_sub(stack_mark())); });
        res.push_str(&format!(" walk={}/{} wstk={}", n, maxd, used));
    }
    res
}

// address of a local: how much stack lies between two calls (C02: walk recurses per level, not per sibling)
#[inline(never)]
pub fn stack_mark() -> usize {
    let x = 0u8;
    std::hint::black_box(&x) as *const u8 as usize
}

pub fn cmd_parse(a: &[&str]) -> String {
    // parse <cfg> <nest> <flags> <src hex>
    let md = build_md(a[0], a[1].parse().unwrap());
    let src = unhex_str(a[3]);
    parse_report(&md, &src, a[2])
}

// walk <shape>: shape is a parenthesised tree, e.g. "(()(()()))"; builds a tree of
// Text nodes, numbers them, and reports walk / walk_mut callback sequences and replace().
pub fn cmd_walk(a: &[&str]) -> String {
    fn build(b: &[u8], i: &mut usize, counter: &mut u32) -> Node {
        // b[*i] == '('
        *i += 1;
        let id = *counter; *counter += 1;
        let mut node = Node::new(Text { content: id.to_string() });
        node.srcmap = Some(markdown_it::common::sourcemap::SourcePos::new(id as usize, id as usize + 1));
        node.attrs.push(("id", id.to_string()));
        while *i < b.len() && b[*i] == b'(' {
            let c = build(b, i, counter);
            node.children.push(c);
        }
        *i += 1; // ')'
        node
    }
    let b = a[0].as_bytes();
    let mut i = 0; let mut counter = 0;
    let mut root = build(b, &mut i, &mut counter);
    let mut seq1: Vec<String> = vec![];
    root.walk(|n, d| seq1.push(format!("{}/{}", n.cast::<Text>().map(|t| t.content.clone()).unwrap_or_default(), d)));
    let mut seq2: Vec<String> = vec![];
    root.walk_mut(|n, d| {
        seq2.push(format!("{}/{}", n.cast::<Text>().map(|t| t.content.clone()).unwrap_or_default(), d));
        // replace value in every node visited at odd depth: kind changes, rest must stay
        if d % 2 == 1 { n.replace(Em { marker: '*' }); }
    });
    let after = dump_tree(&root);
    if a.len() > 1 {
        // walk_mut with a callback that grows the tree: every original leaf whose id is a multiple of 3 gets a child;
        // the traversal must go on into the children the node has after the callback
        let mut i = 0; let mut counter = 0;
        let mut root2 = build(b, &mut i, &mut counter);
        let mut seq3: Vec<String> = vec![];
        root2.walk_mut(|n, d| {
            let name = n.cast::<Text>().map(|t| t.content.clone()).unwrap_or_default();
            seq3.push(format!("{}/{}", name, d));
            if n.children.is_empty() && !name.starts_with('n') && name.parse::<u32>().map(|x| x % 3 == 0).unwrap_or(false) {
                n.children.push(Node::new(Text { content: format!("n{}", name) }));
            }
        });
        return format!("ok w={} m={} t={} g={}", seq1.join(","), seq2.join(","), after, seq3.join(","));
    }
    format!("ok w={} m={} t={}", seq1.join(","), seq2.join(","), after)
}
