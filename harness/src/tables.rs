// Dump of the Unicode / entity data the implementation uses, so that the model runs on the same tables.
use markdown_it::common::utils;

fn cps(s: &str) -> String { s.chars().map(|c| (c as u32).to_string()).collect::<Vec<_>>().join(",") }

fn is_punct_char(ch: char) -> bool {
    use unicode_general_category::get_general_category;
    use unicode_general_category::GeneralCategory::*;
    matches!(get_general_category(ch),
        ConnectorPunctuation | DashPunctuation | OpenPunctuation | ClosePunctuation |
        InitialPunctuation | FinalPunctuation | OtherPunctuation)
}

pub fn dump_tables() {
    let mut ws = vec![];
    let mut punct = vec![];
    for cp in 0u32..0x110000 {
        if let Some(c) = char::from_u32(cp) {
            if c.is_whitespace() { ws.push(cp.to_string()); }
            if c.is_ascii_punctuation() || is_punct_char(c) { punct.push(cp); }
            let lo: String = c.to_lowercase().collect();
            if lo != c.to_string() { println!("lower {} {}", cp, cps(&lo)); }
            let up: String = c.to_uppercase().collect();
            if up != c.to_string() { println!("upper {} {}", cp, cps(&up)); }
        }
    }
    println!("ws {}", ws.join(","));
    // punct as ranges
    let mut ranges = vec![];
    let mut i = 0;
    while i < punct.len() {
        let s = punct[i]; let mut e = s;
        while i + 1 < punct.len() && punct[i + 1] == e + 1 { i += 1; e = punct[i]; }
        ranges.push(format!("{}-{}", s, e));
        i += 1;
    }
    println!("punct {}", ranges.join(","));
    for e in entities::ENTITIES.iter() {
        if let Some(v) = utils::get_entity_from_str(e.entity) {
            println!("entity {} {}", crate::hex(e.entity.as_bytes()), crate::hex(v.as_bytes()));
        }
    }
    // observed safe set of normalize_link
    let md = markdown_it::MarkdownIt::new();
    let mut safe = vec![];
    for b in 0u8..128 {
        let s = (b as char).to_string();
        if b != b'%' && (md.normalize_link)(&s) == s { safe.push(b.to_string()); }
    }
    println!("safe {}", safe.join(","));
    println!("maxnest {}", md.max_nesting);
    println!("sigma {} {}", cps(&"\u{3c3}".to_uppercase()), cps(&"\u{3c2}".to_uppercase()));
}

pub fn cmd_re(_a: &[&str]) -> String { "error not-implemented".into() }
