// Contract-conforming custom rules (C08, C16) and the `hist` command.
use markdown_it::{MarkdownIt, Node, NodeValue, Renderer};
use markdown_it::parser::block::{BlockRule, BlockState};
use markdown_it::parser::inline::{InlineRule, InlineState};
use markdown_it::parser::core::CoreRule;
use crate::{hex, unhex_str};
use crate::dump;

#[derive(Debug)] pub struct Dummy;
impl NodeValue for Dummy {}

#[derive(Debug)] pub struct CustomBlock;
impl NodeValue for CustomBlock {
    fn render(&self, node: &Node, fmt: &mut dyn Renderer) {
        fmt.cr(); fmt.self_close("cb", &node.attrs); fmt.cr();
    }
}
#[derive(Debug)] pub struct CustomInline(pub u32);
impl NodeValue for CustomInline {
    fn render(&self, node: &Node, fmt: &mut dyn Renderer) {
        fmt.open("ci", &node.attrs); fmt.text(&self.0.to_string()); fmt.close("ci");
    }
}
// container built by generics::inline::code_pair with TOKENIZE = true (marker '%')
#[derive(Debug)] pub struct CustomPair(pub u32);
impl NodeValue for CustomPair {
    fn render(&self, node: &Node, fmt: &mut dyn Renderer) {
        fmt.open("cp", &node.attrs); fmt.contents(&node.children); fmt.close("cp");
    }
}
#[derive(Debug)] pub struct CustomCore(pub u32);
impl NodeValue for CustomCore {
    fn render(&self, node: &Node, fmt: &mut dyn Renderer) {
        fmt.cr(); fmt.open("cc", &node.attrs); fmt.text(&self.0.to_string()); fmt.close("cc"); fmt.cr();
    }
}

pub fn kind_of_custom(node: &Node) -> Option<String> {
    if node.is::<CustomBlock>() { return Some("CustomBlock()".into()); }
    if let Some(x) = node.cast::<CustomInline>() { return Some(format!("CustomInline({})", x.0)); }
    if let Some(x) = node.cast::<CustomCore>() { return Some(format!("CustomCore({})", x.0)); }
    if let Some(x) = node.cast::<CustomPair>() { return Some(format!("CustomPair({})", x.0)); }
    None
}

// A line whose text is "@@@" followed only by blanks.
fn is_custom_block_line(line: &str) -> bool {
    let t = line.trim_end_matches(|c| c == ' ' || c == '\t');
    t == "@@@"
}

// Style A: exactly like examples/ferris/block_rule.rs - advances state.line in look-ahead mode too.
pub struct CustomBlockA;
impl BlockRule for CustomBlockA {
    fn run(state: &mut BlockState, silent: bool) -> bool {
        if state.line_indent(state.line) >= 4 { return false; }
        if !is_custom_block_line(state.get_line(state.line)) { return false; }
        if !silent {
            let mut node = Node::new(CustomBlock);
            node.srcmap = state.get_map(state.line, state.line);
            state.node.children.push(node);
        }
        state.line += 1;
        true
    }
}
// never added as a rule: the alias shared by the two custom block rules when they are added with 'g' / 'G'
pub struct CustomGroup;
impl BlockRule for CustomGroup {
    fn run(_state: &mut BlockState, _silent: bool) -> bool { false }
}
// Style B: like the shipped rules - leaves state.line alone in look-ahead mode.
pub struct CustomBlockB;
impl BlockRule for CustomBlockB {
    fn run(state: &mut BlockState, silent: bool) -> bool {
        if state.line_indent(state.line) >= 4 { return false; }
        if !is_custom_block_line(state.get_line(state.line)) { return false; }
        if silent { return true; }
        let mut node = Node::new(CustomBlock);
        node.srcmap = state.get_map(state.line, state.line);
        state.node.children.push(node);
        state.line += 1;
        true
    }
}

// inline rule with a letter marker: "xx" -> CustomInline(1)
pub struct CustomInlineLetter;
impl InlineRule for CustomInlineLetter {
    const MARKER: char = 'x';
    fn run(state: &mut InlineState, silent: bool) -> Option<usize> {
        let input = &state.src[state.pos..state.pos_max];
        if !input.starts_with("xx") { return None; }
        if !silent {
            let mut node = Node::new(CustomInline(1));
            node.srcmap = state.get_map(state.pos, state.pos + 2);
            state.node.children.push(node);
        }
        Some(2)
    }
}
// inline rule with a punctuation marker: "%%" -> CustomInline(2)
pub struct CustomInlinePunct;
impl InlineRule for CustomInlinePunct {
    const MARKER: char = '%';
    fn run(state: &mut InlineState, silent: bool) -> Option<usize> {
        let input = &state.src[state.pos..state.pos_max];
        if !input.starts_with("%%") { return None; }
        if !silent {
            let mut node = Node::new(CustomInline(2));
            node.srcmap = state.get_map(state.pos, state.pos + 2);
            state.node.children.push(node);
        }
        Some(2)
    }
}
// core rule: appends a counter of custom nodes
pub struct CustomCoreRule;
impl CoreRule for CustomCoreRule {
    fn run(root: &mut Node, _: &MarkdownIt) {
        let mut n = 0;
        root.walk(|node, _| { if node.is::<CustomBlock>() || node.is::<CustomInline>() { n += 1; } });
        root.children.push(Node::new(CustomCore(n)));
    }
}

// core rule: reverses every child list, so that later core rules meet the nodes out of source order (seed C15-7: a
// position look-up that assumes it is asked in increasing offset order). Runs before the source-position rule.
pub struct ReverseRule;
impl CoreRule for ReverseRule {
    fn run(root: &mut Node, _: &MarkdownIt) {
        root.walk_mut(|node, _| { node.children.reverse(); });
    }
}

pub fn add_custom(md: &mut MarkdownIt, c: char) {
    match c {
        // a third-party use of the generic pair rule: one more length for strikethrough's marker (seed C07-10)
        'z' => { markdown_it::generics::inline::emph_pair::add_with::<'~', 1, true>(md, || Node::new(markdown_it::plugins::cmark::inline::emphasis::Em { marker: '~' })); }
        'V' => { md.add_rule::<ReverseRule>().before::<markdown_it::plugins::sourcepos::SyntaxPosRule>(); }
        '1' => { md.block.add_rule::<CustomBlockA>(); }
        '2' => { md.block.add_rule::<CustomBlockB>(); }
        '3' => { md.inline.add_rule::<CustomInlineLetter>(); }
        '4' => { md.inline.add_rule::<CustomInlinePunct>(); }
        '5' => { md.add_rule::<CustomCoreRule>(); }
        // same custom block rules, but placed first in the chain
        '6' => { md.block.add_rule::<CustomBlockA>().before_all(); }
        '7' => { md.block.add_rule::<CustomBlockB>().before_all(); }
        'g' => { md.block.add_rule::<CustomBlockA>().alias::<CustomGroup>(); }
        'G' => { md.block.add_rule::<CustomBlockB>().alias::<CustomGroup>(); }
        // generic pair with nested inline parsing: %foo%, %%foo%% ...
        '8' => { markdown_it::generics::inline::code_pair::add_with::<'%', true>(md, |len| Node::new(CustomPair(len as u32))); }
        _ => panic!("harness: unknown plugin code {}", c),
    }
}

fn remove_rule(md: &mut MarkdownIt, c: char) {
    use markdown_it::plugins::cmark::{inline as ci, block as cb};
    use markdown_it::generics::inline::{code_pair::CodePairScanner, emph_pair::{EmphPairScanner, FragmentsJoin}, full_link::{LinkScanner, LinkPrefixScanner, LinkScannerEnd}};
    match c {
        'n' => md.inline.remove_rule::<ci::newline::NewlineScanner>(),
        'e' => md.inline.remove_rule::<ci::escape::EscapeScanner>(),
        'b' => md.inline.remove_rule::<CodePairScanner<'`', false>>(),
        'm' => md.inline.remove_rule::<EmphPairScanner<'*', true>>(),
        'M' => md.inline.remove_rule::<EmphPairScanner<'_', false>>(),
        's' => md.inline.remove_rule::<EmphPairScanner<'~', true>>(),
        'l' => md.inline.remove_rule::<LinkScanner<false>>(),
        'i' => md.inline.remove_rule::<LinkPrefixScanner<'!', true>>(),
        'E' => md.inline.remove_rule::<LinkScannerEnd>(),
        'a' => md.inline.remove_rule::<ci::autolink::AutolinkScanner>(),
        't' => md.inline.remove_rule::<ci::entity::EntityScanner>(),
        'x' => md.inline.remove_rule::<markdown_it::plugins::html::html_inline::HtmlInlineScanner>(),
        'c' => md.block.remove_rule::<cb::code::CodeScanner>(),
        'f' => md.block.remove_rule::<cb::fence::FenceScanner>(),
        'q' => md.block.remove_rule::<cb::blockquote::BlockquoteScanner>(),
        'h' => md.block.remove_rule::<cb::hr::HrScanner>(),
        'u' => md.block.remove_rule::<cb::list::ListScanner>(),
        'r' => md.block.remove_rule::<cb::reference::ReferenceScanner>(),
        'H' => md.block.remove_rule::<cb::heading::HeadingScanner>(),
        'L' => md.block.remove_rule::<cb::lheading::LHeadingScanner>(),
        'p' => md.block.remove_rule::<cb::paragraph::ParagraphScanner>(),
        'X' => md.block.remove_rule::<markdown_it::plugins::html::html_block::HtmlBlockScanner>(),
        'S' => md.remove_rule::<markdown_it::plugins::sourcepos::SyntaxPosRule>(),
        'J' => md.remove_rule::<FragmentsJoin>(),
        '1' | '6' => md.block.remove_rule::<CustomBlockA>(),
        '2' | '7' => md.block.remove_rule::<CustomBlockB>(),
        '3' => md.inline.remove_rule::<CustomInlineLetter>(),
        '4' => md.inline.remove_rule::<CustomInlinePunct>(),
        '5' => md.remove_rule::<CustomCoreRule>(),
        '8' => md.inline.remove_rule::<CodePairScanner<'%', true>>(),
        'Z' => md.block.remove_rule::<CustomGroup>(),
        _ => panic!("harness: unknown remove code {}", c),
    }
}

fn has_rule(md: &mut MarkdownIt, c: char) -> bool {
    use markdown_it::plugins::cmark::{inline as ci, block as cb};
    use markdown_it::generics::inline::{code_pair::CodePairScanner, emph_pair::{EmphPairScanner, FragmentsJoin}, full_link::{LinkScanner, LinkPrefixScanner, LinkScannerEnd}};
    match c {
        'n' => md.inline.has_rule::<ci::newline::NewlineScanner>(),
        'e' => md.inline.has_rule::<ci::escape::EscapeScanner>(),
        'b' => md.inline.has_rule::<CodePairScanner<'`', false>>(),
        'm' => md.inline.has_rule::<EmphPairScanner<'*', true>>(),
        'M' => md.inline.has_rule::<EmphPairScanner<'_', false>>(),
        's' => md.inline.has_rule::<EmphPairScanner<'~', true>>(),
        'l' => md.inline.has_rule::<LinkScanner<false>>(),
        'i' => md.inline.has_rule::<LinkPrefixScanner<'!', true>>(),
        'E' => md.inline.has_rule::<LinkScannerEnd>(),
        'a' => md.inline.has_rule::<ci::autolink::AutolinkScanner>(),
        't' => md.inline.has_rule::<ci::entity::EntityScanner>(),
        'x' => md.inline.has_rule::<markdown_it::plugins::html::html_inline::HtmlInlineScanner>(),
        'c' => md.block.has_rule::<cb::code::CodeScanner>(),
        'f' => md.block.has_rule::<cb::fence::FenceScanner>(),
        'q' => md.block.has_rule::<cb::blockquote::BlockquoteScanner>(),
        'h' => md.block.has_rule::<cb::hr::HrScanner>(),
        'u' => md.block.has_rule::<cb::list::ListScanner>(),
        'r' => md.block.has_rule::<cb::reference::ReferenceScanner>(),
        'H' => md.block.has_rule::<cb::heading::HeadingScanner>(),
        'L' => md.block.has_rule::<cb::lheading::LHeadingScanner>(),
        'p' => md.block.has_rule::<cb::paragraph::ParagraphScanner>(),
        'X' => md.block.has_rule::<markdown_it::plugins::html::html_block::HtmlBlockScanner>(),
        'S' => md.has_rule::<markdown_it::plugins::sourcepos::SyntaxPosRule>(),
        'J' => md.has_rule::<FragmentsJoin>(),
        '1' | '6' => md.block.has_rule::<CustomBlockA>(),
        '2' | '7' => md.block.has_rule::<CustomBlockB>(),
        '3' => md.inline.has_rule::<CustomInlineLetter>(),
        '4' => md.inline.has_rule::<CustomInlinePunct>(),
        '5' => md.has_rule::<CustomCoreRule>(),
        '8' => md.inline.has_rule::<CodePairScanner<'%', true>>(),
        'Z' => md.block.has_rule::<CustomGroup>(),
        _ => panic!("harness: unknown has code {}", c),
    }
}

// hist <nest> <flags> <script>: ops separated by ';'
//   +c   add plugin c          -c  remove rule c        ?c  has_rule c
//   P<hex> parse document      D   format!("{:?}", md)
pub fn cmd_hist(a: &[&str]) -> String {
    let mut md = MarkdownIt::new();
    md.max_nesting = a[0].parse().unwrap();
    let flags = a[1];
    let mut out: Vec<String> = vec![];
    for op in a[2].split(';') {
        if op.is_empty() { continue; }
        let (c, rest) = op.split_at(1);
        match c {
            "+" => { for ch in rest.chars() { dump::add_plugin(&mut md, ch); } }
            "-" => { for ch in rest.chars() { remove_rule(&mut md, ch); } }
            "?" => { let r: String = rest.chars().map(|ch| if has_rule(&mut md, ch) { '1' } else { '0' }).collect(); out.push(format!("?{}", r)); }
            "P" => {
                let src = unhex_str(rest);
                let r = crate::guarded(|| dump::parse_report(&md, &src, flags));
                out.push(format!("P[{}]", r));
            }
            // the limit is a public field: it may be reassigned between parses (seed C02-9)
            "N" => { md.max_nesting = rest.parse().unwrap(); }
            // the link validator is a public field: V0 installs one that accepts everything, V1 the stock one again
            // (seed C04-12: a copy taken when the link plugin is registered); not part of the model, oracle only
            "V" => {
                fn anything(_: &str) -> bool { true }
                if rest == "0" { md.validate_link = anything; } else { md.validate_link = MarkdownIt::new().validate_link; }
            }
            "D" => {
                let r = crate::guarded(|| { let s = format!("{:?}", md); format!("ok {}", s.len() > 0) });
                out.push(format!("D[{}]", r.split(' ').take(2).collect::<Vec<_>>().join(" ")));
            }
            _ => panic!("harness: bad hist op"),
        }
    }
    format!("ok {}", out.join(";"))
}

pub fn cmd_look(_a: &[&str]) -> String {
    let _ = hex;
    "error not-implemented".into()
}
