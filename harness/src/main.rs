// mdoracle: runs the real markdown-it.rs code behind a line protocol.
// One command per input line, one canonical result line per command.
// All strings are hex-encoded UTF-8.  See /verif/DESIGN.md section 4.
use std::io::{self, BufRead, Write};
use std::panic::{self, AssertUnwindSafe};
use std::cell::RefCell;

use markdown_it::{MarkdownIt, Node, NodeValue, Renderer};
use markdown_it::common::mdurl::{self, AsciiSet};
use markdown_it::common::utils;
use markdown_it::common::ruler::Ruler;
use markdown_it::common::ErasedSet;
use markdown_it::common::sourcemap::{SourcePos, SourceWithLineStarts};

mod dump;
mod custom;
mod tables;

thread_local! {
    static LAST_PANIC: RefCell<String> = RefCell::new(String::new());
}

pub fn hex(s: &[u8]) -> String {
    if s.is_empty() { return "-".into(); }
    let mut r = String::with_capacity(s.len() * 2);
    for b in s { r.push_str(&format!("{:02x}", b)); }
    r
}

pub fn unhex(s: &str) -> Vec<u8> {
    if s == "-" { return vec![]; }
    let b = s.as_bytes();
    let mut r = Vec::with_capacity(b.len() / 2);
    let mut i = 0;
    while i + 1 < b.len() {
        let h = (b[i] as char).to_digit(16).unwrap() as u8;
        let l = (b[i + 1] as char).to_digit(16).unwrap() as u8;
        r.push(h * 16 + l);
        i += 2;
    }
    r
}

pub fn unhex_str(s: &str) -> String {
    String::from_utf8(unhex(s)).expect("harness: argument is not valid UTF-8")
}

fn classify_panic(msg: &str) -> &'static str {
    if msg.contains("index out of bounds") { "IndexOOB" }
    else if msg.contains("is not a char boundary") || msg.contains("out of range for slice")
        || msg.contains("slice index starts at") || msg.contains("byte index")
        || msg.contains("out of bounds of") || msg.contains("begin <= end") { "Slice" }
    else if msg.contains("called `Option::unwrap()` on a `None` value") { "UnwrapNone" }
    else if msg.contains("called `Result::unwrap()`") { "UnwrapErr" }
    else if msg.contains("attempt to subtract with overflow") || msg.contains("attempt to add with overflow")
        || msg.contains("attempt to multiply with overflow") { "Overflow" }
    else if msg.contains("cyclic dependency") { "Cyclic" }
    else if msg.contains("missing dependency") { "Missing" }
    else if msg.contains("not implemented") { "Unimplemented" }
    else if msg.contains("already borrowed") || msg.contains("already mutably borrowed") { "Borrow" }
    else if msg.contains("assertion") || msg.contains("didn't increment") || msg.contains("root node of the AST") { "Assert" }
    else if msg.contains("harness:") { "HARNESS" }
    else { "Other" }
}

pub fn guarded<F: FnOnce() -> String>(f: F) -> String {
    match panic::catch_unwind(AssertUnwindSafe(f)) {
        Ok(s) => s,
        Err(e) => {
            let msg = if let Some(s) = e.downcast_ref::<&str>() { (*s).to_owned() }
                      else if let Some(s) = e.downcast_ref::<String>() { s.clone() }
                      else { "unknown".to_owned() };
            let loc = LAST_PANIC.with(|l| l.borrow().clone());
            format!("panic {} {}", classify_panic(&msg), hex(format!("{} @ {}", msg, loc).as_bytes()))
        }
    }
}

fn ascii_set(bytes: &[u8]) -> AsciiSet {
    let mut s = AsciiSet::empty();
    for b in bytes { if *b < 128 { s = s.add(*b); } }
    s
}

fn cmd_enc(a: &[&str]) -> String {
    // enc <keep 0|1> <base 0|1 (start from AsciiSet::new)> <safe hex> <src hex>
    let keep = a[0] == "1";
    let safe_bytes = unhex(a[2]);
    let mut set = if a[1] == "1" { AsciiSet::new() } else { AsciiSet::empty() };
    for b in &safe_bytes { if *b < 128 { set = set.add(*b); } }
    // optional 5th argument: bytes removed again with AsciiSet::remove (members or not)
    if a.len() > 4 { for b in unhex(a[4]) { if b < 128 { set = set.remove(b); } } }
    let _ = ascii_set;
    let src = unhex_str(a[3]);
    format!("ok {}", hex(mdurl::encode(&src, set, keep).as_bytes()))
}

fn cmd_pos(a: &[&str]) -> String {
    // pos <src hex> <start> <end>  -> get_positions of SourcePos::new(start,end)
    let src = unhex_str(a[0]);
    let map = SourceWithLineStarts::new(&src);
    let s: usize = a[1].parse().unwrap();
    let e: usize = a[2].parse().unwrap();
    let ((l1, c1), (l2, c2)) = SourcePos::new(s, e).get_positions(&map);
    format!("ok {}:{}-{}:{}", l1, c1, l2, c2)
}

fn cmd_ruler(a: &[&str]) -> String {
    // ruler <script>; ops separated by ';'
    let mut r = Ruler::<u32, u32>::new();
    let mut out: Vec<String> = vec![];
    for op in a[0].split(';') {
        if op.is_empty() { continue; }
        let (c, rest) = op.split_at(1);
        match c {
            "a" => {
                let mut parts = rest.split(':');
                let head = parts.next().unwrap();
                let mut hv = head.split(',');
                let mark: u32 = hv.next().unwrap().parse().unwrap();
                let val: u32 = hv.next().unwrap().parse().unwrap();
                let item = r.add(mark, val);
                for m in parts {
                    let (mc, mr) = m.split_at(1);
                    match mc {
                        "b" => { item.before(mr.parse().unwrap()); }
                        "f" => { item.after(mr.parse().unwrap()); }
                        "l" => { item.alias(mr.parse().unwrap()); }
                        "q" => { item.require(mr.parse().unwrap()); }
                        "B" => { item.before_all(); }
                        "A" => { item.after_all(); }
                        _ => panic!("harness: bad ruler modifier"),
                    }
                }
            }
            "r" => { r.remove(rest.parse().unwrap()); }
            "c" => { out.push(format!("c{}", if r.contains(rest.parse().unwrap()) { 1 } else { 0 })); }
            "i" => {
                let res = panic::catch_unwind(AssertUnwindSafe(|| {
                    r.iter().map(|x| x.to_string()).collect::<Vec<_>>().join(",")
                }));
                match res {
                    Ok(s) => out.push(format!("i[{}]", s)),
                    Err(e) => {
                        let msg = if let Some(s) = e.downcast_ref::<&str>() { (*s).to_owned() }
                                  else if let Some(s) = e.downcast_ref::<String>() { s.clone() } else { "unknown".into() };
                        out.push(format!("iP{}", classify_panic(&msg)));
                    }
                }
            }
            "d" => {
                let res = panic::catch_unwind(AssertUnwindSafe(|| format!("{:?}", r)));
                match res {
                    Ok(s) => {
                        // extract "compiled: [...]" part: list of (idx, mark)
                        let idx = s.rfind("compiled: ").unwrap();
                        let tail: String = s[idx + 10..].chars().filter(|c| !c.is_whitespace()).collect();
                        let tail = tail.trim_end_matches('}').trim_end_matches(',').to_owned();
                        out.push(format!("d{}", tail));
                    }
                    Err(e) => {
                        let msg = if let Some(s) = e.downcast_ref::<&str>() { (*s).to_owned() }
                                  else if let Some(s) = e.downcast_ref::<String>() { s.clone() } else { "unknown".into() };
                        out.push(format!("dP{}", classify_panic(&msg)));
                    }
                }
            }
            _ => panic!("harness: bad ruler op"),
        }
    }
    format!("ok {}", out.join(";"))
}

#[derive(Debug, Default, PartialEq)] struct Z0;
#[derive(Debug, Default, PartialEq)] struct Z1;
#[derive(Debug, Default, PartialEq)] struct TA(u32);
#[derive(Debug, Default, PartialEq)] struct TB(u32);
#[derive(Debug, Default, PartialEq)] struct TS(String);

// two DISTINCT types whose std::any::type_name is the same string (items of the same name in different blocks of one
// function): a store keyed by the type's name instead of its id confuses them (seed C20-7)
trait NumVal: 'static + std::fmt::Debug + Default { fn new(v: u32) -> Self; fn val(&self) -> u32; fn set(&mut self, v: u32); }
fn oo(x: Option<String>) -> String { match x { None => "-".into(), Some(s) if s.is_empty() => "0".into(), Some(s) => s } }
fn num_op<T: NumVal>(s: &mut ErasedSet, c: &str, v: u32) -> String {
    match c {
        "i" => oo(s.insert(T::new(v)).map(|x| x.val().to_string())),
        "g" => oo(s.get::<T>().map(|x| x.val().to_string())),
        "m" => oo(s.get_mut::<T>().map(|x| { let old = x.val(); x.set(v); old.to_string() })),
        "o" => s.get_or_insert(T::new(v)).val().to_string(),
        "d" => s.get_or_insert_default::<T>().val().to_string(),
        "r" => oo(s.remove::<T>().map(|x| x.val().to_string())),
        "h" => (s.contains::<T>() as u32).to_string(),
        _ => panic!("harness: bad eset op"),
    }
}
fn same_ops(s: &mut ErasedSet, which: u32, c: &str, v: u32) -> String {
    if which == 5 {
        #[derive(Debug, Default)] struct Same(u32);
        impl NumVal for Same { fn new(v: u32) -> Self { Same(v) } fn val(&self) -> u32 { self.0 } fn set(&mut self, v: u32) { self.0 = v; } }
        num_op::<Same>(s, c, v)
    } else {
        #[derive(Debug, Default)] struct Same(u32);
        impl NumVal for Same { fn new(v: u32) -> Self { Same(v) } fn val(&self) -> u32 { self.0 } fn set(&mut self, v: u32) { self.0 = v; } }
        num_op::<Same>(s, c, v)
    }
}

// 96 further same-layout types (one per const parameter): stores with many types at once, for anything that depends on how
// many types are held or on their hashes (seeds C20-9, C20-10)
#[derive(Debug, Default)] struct Gen<const K: u32>(u32);
impl<const K: u32> NumVal for Gen<K> { fn new(v: u32) -> Self { Gen(v) } fn val(&self) -> u32 { self.0 } fn set(&mut self, v: u32) { self.0 = v; } }
fn gen_ops(s: &mut ErasedSet, t: u32, c: &str, v: u32) -> String {
    macro_rules! arms { ($($k:literal)*) => { match t { $($k => num_op::<Gen<$k>>(s, c, v),)* _ => panic!("harness: bad eset type") } } }
    arms!(7 8 9 10 11 12 13 14 15 16 17 18 19 20 21 22 23 24 25 26 27 28 29 30 31 32 33 34 35 36 37 38 39 40 41 42 43 44 45 46 47 48 49 50 51 52 53 54 55 56 57 58 59 60 61 62 63 64 65 66 67 68 69 70 71 72 73 74 75 76 77 78 79 80 81 82 83 84 85 86 87 88 89 90 91 92 93 94 95 96 97 98 99 100 101 102)
}

fn cmd_eset(a: &[&str]) -> String {
    let mut s = ErasedSet::new();
    let mut out: Vec<String> = vec![];
    // the String-typed slot prints its default (empty) value as "0", like the numeric slots
    fn o(x: Option<String>) -> String { match x { None => "-".into(), Some(s) if s.is_empty() => "0".into(), Some(s) => s } }
    for op in a[0].split(';') {
        if op.is_empty() { continue; }
        let (c, rest) = op.split_at(1);
        let mut it = rest.split(',');
        let t: u32 = it.next().filter(|x| !x.is_empty()).map(|x| x.parse().unwrap()).unwrap_or(0);
        let v: u32 = it.next().map(|x| x.parse().unwrap()).unwrap_or(0);
        if t >= 7 && c != "c" && c != "l" {
            out.push(gen_ops(&mut s, t, c, v));
            continue;
        }
        if (t == 5 || t == 6) && c != "c" && c != "l" {
            out.push(same_ops(&mut s, t, c, v));
            continue;
        }
        let r = match c {
            "i" => match t {
                0 => o(s.insert(Z0).map(|_| "z".into())),
                1 => o(s.insert(Z1).map(|_| "z".into())),
                2 => o(s.insert(TA(v)).map(|x| x.0.to_string())),
                3 => o(s.insert(TB(v)).map(|x| x.0.to_string())),
                _ => o(s.insert(TS(v.to_string())).map(|x| x.0)),
            },
            "g" => match t {
                0 => o(s.get::<Z0>().map(|_| "z".into())),
                1 => o(s.get::<Z1>().map(|_| "z".into())),
                2 => o(s.get::<TA>().map(|x| x.0.to_string())),
                3 => o(s.get::<TB>().map(|x| x.0.to_string())),
                _ => o(s.get::<TS>().map(|x| x.0.clone())),
            },
            "m" => match t {
                0 => o(s.get_mut::<Z0>().map(|_| "z".into())),
                1 => o(s.get_mut::<Z1>().map(|_| "z".into())),
                2 => o(s.get_mut::<TA>().map(|x| { let old = x.0; x.0 = v; old.to_string() })),
                3 => o(s.get_mut::<TB>().map(|x| { let old = x.0; x.0 = v; old.to_string() })),
                _ => o(s.get_mut::<TS>().map(|x| { let old = x.0.clone(); x.0 = v.to_string(); old })),
            },
            "o" => match t {
                0 => { s.get_or_insert(Z0); "z".into() }
                1 => { s.get_or_insert_with(|| Z1); "z".into() }
                2 => s.get_or_insert(TA(v)).0.to_string(),
                3 => s.get_or_insert_with(|| TB(v)).0.to_string(),
                _ => { let x = s.get_or_insert(TS(v.to_string())).0.clone(); if x.is_empty() { "0".into() } else { x } }
            },
            "d" => match t {
                0 => { s.get_or_insert_default::<Z0>(); "z".into() }
                1 => { s.get_or_insert_default::<Z1>(); "z".into() }
                2 => s.get_or_insert_default::<TA>().0.to_string(),
                3 => s.get_or_insert_default::<TB>().0.to_string(),
                _ => { let x = s.get_or_insert_default::<TS>().0.clone(); if x.is_empty() { "0".into() } else { x } }
            },
            "r" => match t {
                0 => o(s.remove::<Z0>().map(|_| "z".into())),
                1 => o(s.remove::<Z1>().map(|_| "z".into())),
                2 => o(s.remove::<TA>().map(|x| x.0.to_string())),
                3 => o(s.remove::<TB>().map(|x| x.0.to_string())),
                _ => o(s.remove::<TS>().map(|x| x.0)),
            },
            "h" => (match t {
                0 => s.contains::<Z0>(), 1 => s.contains::<Z1>(), 2 => s.contains::<TA>(),
                3 => s.contains::<TB>(), _ => s.contains::<TS>(),
            } as u32).to_string(),
            "c" => { s.clear(); "c".into() }
            "l" => format!("{}{}", s.len(), if s.is_empty() { "e" } else { "n" }),
            _ => panic!("harness: bad eset op"),
        };
        out.push(r);
    }
    format!("ok {}", out.join(";"))
}

fn dispatch(line: &str) -> String {
    let mut parts = line.split(' ');
    let cmd = parts.next().unwrap_or("");
    let a: Vec<&str> = parts.collect();
    match cmd {
        "enc" => cmd_enc(&a),
        "norm" => { let md = MarkdownIt::new(); format!("ok {}", hex((md.normalize_link)(&unhex_str(a[0])).as_bytes())) }
        "valid" => { let md = MarkdownIt::new(); format!("ok {}", if (md.validate_link)(&unhex_str(a[0])) { 1 } else { 0 }) }
        "esc" => format!("ok {}", hex(utils::escape_html(&unhex_str(a[0])).as_bytes())),
        "unesc" => format!("ok {}", hex(utils::unescape_all(&unhex_str(a[0])).as_bytes())),
        "entcode" => format!("ok {}", if utils::is_valid_entity_code(a[0].parse().unwrap()) { 1 } else { 0 }),
        "ent" => match utils::get_entity_from_str(&unhex_str(a[0])) {
            Some(s) => format!("ok {}", hex(s.as_bytes())), None => "ok none".into() },
        "normref" => format!("ok {}", hex(utils::normalize_reference(&unhex_str(a[0])).as_bytes())),
        "indent" => { let (i, p) = utils::find_indent_of(&unhex_str(a[0]), a[1].parse().unwrap()); format!("ok {} {}", i, p) }
        "cutws" => {
            let s = unhex_str(a[0]); let n: i32 = a[1].parse().unwrap();
            let (sp, st) = utils::calc_right_whitespace_with_tabstops(&s, n);
            format!("ok {} {} {}", sp, st, hex(utils::cut_right_whitespace_with_tabstops(&s, n).as_bytes()))
        }
        "rfind" => {
            let c = char::from_u32(a[1].parse().unwrap()).unwrap();
            format!("ok {}", utils::rfind_and_count(&unhex_str(a[0]), c))
        }
        "pos" => cmd_pos(&a),
        "ruler" => cmd_ruler(&a),
        "eset" => cmd_eset(&a),
        "walk" => dump::cmd_walk(&a),
        "parse" => dump::cmd_parse(&a),
        "hist" => custom::cmd_hist(&a),
        "look" => custom::cmd_look(&a),
        "re" => tables::cmd_re(&a),
        "ping" => "ok pong".into(),
        _ => format!("error unknown-command {}", cmd),
    }
}

fn main() {
    panic::set_hook(Box::new(|info| {
        let loc = info.location().map(|l| format!("{}:{}", l.file(), l.line())).unwrap_or_default();
        LAST_PANIC.with(|l| *l.borrow_mut() = loc);
    }));
    let args: Vec<String> = std::env::args().collect();
    if args.len() > 1 && args[1] == "dump-tables" {
        tables::dump_tables();
        return;
    }
    let stdin = io::stdin();
    let stdout = io::stdout();
    let mut out = io::BufWriter::new(stdout.lock());
    for line in stdin.lock().lines() {
        let line = line.unwrap();
        let line = line.trim_end();
        if line.is_empty() { continue; }
        let l = line.to_owned();
        // big stack so that deep-but-bounded recursion in debug builds does not abort;
        // unbounded recursion is detected by the gauge hook (see dump.rs)
        let res = guarded(|| dispatch(&l));
        writeln!(out, "{}", res).unwrap();
        out.flush().unwrap();
    }
    let _ = Node::new(custom::Dummy);
    let _: Option<&dyn NodeValue> = None;
    let _: Option<&dyn Renderer> = None;
}
