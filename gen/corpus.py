# Spec examples from /repo/tests/fixtures/commonmark/spec.txt (inputs only) and helpers.
import os, re
REPO = os.environ.get("VERIF_REPO", "/repo")


def spec_inputs():
    p = os.path.join(REPO, "tests/fixtures/commonmark/spec.txt")
    out = []
    if not os.path.exists(p):
        return out
    txt = open(p, encoding="utf-8").read()
    for m in re.finditer(r"^`{32} example\n(.*?)^\.\n(.*?)^`{32}$", txt, re.S | re.M):
        src = m.group(1).replace("→", "\t")
        out.append(src)
    return out
