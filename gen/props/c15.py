# C15 -- byte offsets convert to exact line:column positions
import sys, os
sys.path.insert(0, os.path.dirname(os.path.dirname(os.path.abspath(__file__))))
from lib import hx, unhx

COQ_TARGETS = ["props/C15.vo"]
RELEASE_TOO = True
RULE = ("pos cases: texts built from lines of length 0..50 (dense around multiples of 16), ASCII and 2/3/4-byte characters, "
        "LF / CR / CRLF / mixed and consecutive line endings; for every text all offsets 0..len+2 are probed as range "
        "starts and ends (boundaries and non-boundaries). Non-trivial = text has a line ending or a multi-byte char or a "
        "line longer than 16 columns; distinct = distinct command lines. The oracle is an independent Python "
        "implementation of the direct definition.")


def gen_text(rng):
    nlines = rng.choice([1, 1, 2, 3, 5, 8])
    out = []
    for _ in range(nlines):
        n = rng.choice([0, 0, 1, 2, 5, 14, 15, 16, 17, 18, 30, 31, 32, 33, 34, 47, 48, 49, 50])
        line = []
        for _ in range(n):
            k = rng.random()
            if k < 0.75:
                line.append(rng.choice("abcxyz 0123\t*_"))
            else:
                line.append(rng.choice(["é", "ß", "€", "中", "𝄞", "😀", "\u0080", "￿"]))
        out.append("".join(line))
        out.append(rng.choice(["\n", "\n", "\r", "\r\n", "\r\n", "\n\n", "\r\r", "\r\n\r\n", "\n\r", ""]))
    return "".join(out)


def spec_pos(b, off):
    """direct definition: scan the first off+1 bytes"""
    line, col = 1, 0
    k = min(off + 1, len(b))
    i = 0
    while i < k:
        c = b[i]
        if c == 13 and i + 1 < len(b) and b[i + 1] == 10:
            col += 1
        elif c in (13, 10):
            line += 1
            col = 0
        elif 128 <= c < 192:
            pass
        else:
            col += 1
        i += 1
    return line, col


def cases(rng, tier, Case):
    ntexts = 60 if tier == "quick" else 1500
    res = []
    fixed = ["", "a", "\n", "\r\n", "ab\ncd", "a\r\nb\r\rc", "0123456789abcdefghijklmnopqrstuvwxyz0123456789é\n€uro",
             "x" * 16, "x" * 17, "x" * 32 + "\n" + "y" * 33, "é" * 17, "\n" * 5, "a\r", "\r", "\r\r\n\n"]
    texts = fixed + [gen_text(rng) for _ in range(ntexts)]
    for t in texts:
        b = t.encode()
        offs = list(range(0, len(b) + 3))
        if tier == "quick" and len(offs) > 40:
            offs = sorted(set(rng.sample(offs, 36) + [0, len(b) - 1 if b else 0, len(b), len(b) + 1]))
        for o in offs:
            e = o + rng.choice([0, 1, 1, 2, 5, 20])
            res.append(Case("pos %s %d %d" % (hx(b), o, e), "gen", {"src": hx(b), "s": o, "e": e}))
    # very long lines: columns beyond 16 and 32 bit-friendly limits must not wrap (implementation-only; decided by the oracle)
    for t in ["ab\n" + "x" * 66000 + "\nz", "é" * 70000, "q" * 65530 + "é𝄞" * 10 + "\r\nw"]:
        b = t.encode()
        for o in sorted(set([0, 3, 65530, 65535, 65536, 65537, 65538, 65540, 65547, 65600, 66001, len(b) - 1, len(b)] + [rng.randrange(len(b)) for _ in range(6)])):
            while o < len(b) and 128 <= b[o] < 192:
                o += 1
            res.append(Case("pos %s %d %d" % (hx(b), o, o + 1), "long", {"src": hx(b), "s": o, "e": o + 1}, compare=False))
    # "and hence every source-position attribute in the output": whole documents with the source-position plugin; every
    # data-sourcepos attribute must be the direct definition applied to the node's range -- also when an earlier core rule
    # has put the nodes out of source order (plugin V of the harness reverses every child list; seed C15-7)
    import mdgen
    docs = ["# h\n\npara *e* `c`\nline2\n\n- a\n- b\n\n> q\n\n```\nx\n```\n\nlast é𝄞 [l](u)", "a\r\nb\r\rc\n\n# " + "é" * 40 + " *x*\n\n" + "y" * 50 + " **z**",
            "x" * 15 + "é" + "y" * 20 + " *em* tail\n\n" + "é" * 16 + "*q*" + "w" * 16 + "é_r_"]
    docs += [mdgen.clean_utf8(mdgen.gen_doc(rng)) for _ in range(60 if tier == "quick" else 3000)]
    for d in docs:
        for cfg, cmp_ in (("CsWS", True), ("CVS", False), ("CSV", False)):
            res.append(Case("parse %s 100 T %s" % (cfg, hx(d)), "attr", {"doc": hx(d)}, compare=cmp_ and len(d) < 2000))
    return res


def oracle(case, io, mo):
    if not io.startswith("ok "):
        # the converter is only required to return for offsets on character boundaries (it slices the text);
        # a panic on a boundary offset is a failure
        return "implementation did not return normally: " + io[:160]
    if "doc" in case.params:
        from parsecommon import fields, parse_tree
        b = unhx(case.params["doc"])
        for n in parse_tree(fields(io)["tree"]):
            for k, v in n.attrs:
                if k == "data-sourcepos" and n.start is not None:
                    l1, c1 = spec_pos(b, n.start)
                    l2, c2 = spec_pos(b, n.end - 1 if n.end > 0 else n.end)
                    want = "%d:%d-%d:%d" % (l1, c1, l2, c2)
                    if v.decode() != want:
                        return "data-sourcepos=%s on %s at [%d,%d) but the direct definition gives %s" % (v.decode(), n.kind, n.start, n.end, want)
        return None
    b = unhx(case.params["src"])
    s, e = case.params["s"], case.params["e"]
    l1, c1 = spec_pos(b, s)
    l2, c2 = spec_pos(b, e - 1 if e > 0 else e)
    want = "ok %d:%d-%d:%d" % (l1, c1, l2, c2)
    if io != want:
        return "get_positions=%s but the direct definition gives %s" % (io, want)
    return None


def project(o):
    if " tree=" in o:
        import parsecommon
        return parsecommon.project(o)
    return o


def nontrivial(case, io):
    if "doc" in case.params:
        return True
    b = unhx(case.params["src"])
    return (b"\n" in b or b"\r" in b or any(x >= 128 for x in b) or len(b) > 16)


def known_match(k, case, io, msg):
    return False
