# C16 -- look-ahead never contradicts, alters or replaces real parsing
import sys, os
sys.path.insert(0, os.path.dirname(os.path.dirname(os.path.abspath(__file__))))
from lib import hx, unhx
import mdgen, corpus
from parsecommon import project, fields, read_html

COQ_TARGETS = ["props/C16.vo"]
RULE = ("(a) dual-run probe (hook): every rule is called in look-ahead mode immediately before its real call in both tokenizer "
        "loops on generated documents, spec inputs and label-heavy soup; a look-ahead acceptance that the real call does not "
        "reproduce with the same extent, or a look-ahead that touches the tree, is a failure; (b) contract-conforming custom block "
        "rule in the two permitted styles (A: advances the line in look-ahead mode like examples/ferris; B: does not), placed first "
        "or last in the chain, with its marker line after paragraphs, list items, block quotes, reference definitions, setext "
        "candidates, fences, at container boundaries; oracle: HTML with style A = HTML with style B and every marker line at block "
        "level yields one custom block. Non-trivial = document contains a custom marker line or a link label; distinct = distinct cases.")
CTX = ["- a\n@@@\nb", "a\n@@@\nb", "> q\n@@@\nb", "- a\n- b\n@@@", "1. a\n@@@", "[r]: /u\n@@@\n[r]", "h\n@@@\n===", "- a\n\n  b\n@@@", "> - a\n> @@@\n@@@", "- a\n  @@@\n@@@\n- b",
       "```\n@@@\n```\n@@@", "    @@@\n@@@", "a\n   @@@  \nb", "@@@\n@@@\n\n@@@", "- @@@", "> @@@", "-\n@@@", "- a\n@@@x\n@@@", "# h\n@@@", "<div>\n@@@\n</div>\n\n@@@", "* a\n  * b\n@@@\n  * c",
       "a\n@@@\n- b\n@@@\n> c\n@@@\n1. d\n@@@"]
LABELS = ["[" + "a &amp; " * 120, "[x " + "[y](u) " * 110 + "](v)", "[" + "*a* `b` " * 70 + "](u) tail *x* [y](z)", "![" + "<http://a.b> " * 105 + "](u) *x*",
          "[a " + "\\* " * 130 + "] [t](u) *e*", "[x``y`]`](u)", "[a`b](c)`", "[`a](b)`](c)", "[a [b](c) d](e)", "![a [b](c) d](e)", "[a\\]](b)", "[a &amp; b](c)", "[a <b c=\"]\"> d](e)", "[<http://a.b/]>](c)", "[*a](b)*", "[a][b]\n\n[b]: /u",
          "[[[a]]](u)", "[a]: /u\n\n[[a]]", "[![a](b)](c)", "[a ``` b](c) ``` d", "[a\nb](c)", "`[a](b`)", "[a`](b)`"]


def cases(rng, tier, Case):
    res = []
    n = 1200 if tier == "quick" else 60000
    # (a) probe
    docs = list(LABELS) + list(CTX)
    for i, d in enumerate(corpus.spec_inputs()):
        if tier == "quick" and i % 3:
            continue
        docs.append(d)
    for _ in range(n):
        docs.append(mdgen.clean_utf8(mdgen.gen_doc(rng)))
    # labels around the 999-character limit of CommonMark, followed by more tokens (seed C16-7)
    for ln in (998, 999, 1000, 1001, 1500):
        lab = ("x" * ln)
        lab2 = ("ab " * (ln // 3 + 1))[:ln]
        for L in (lab, lab2):
            docs += ["see [foo][" + L + "] for *details*", "[" + L + "] `c` [bar]\n\n[bar]: /u", "[" + L + "]: /long\n\n[t][" + L + "] & [" + L + "][] x",
                     "![a][" + L + "] <http://x.y> z"]
    for d in docs:
        cfg = rng.choice(["CsW", "CsW", "CsW1", "CsW2", mdgen.gen_cfg(rng)])
        res.append(Case("parse %s 100 RP %s" % (cfg, hx(d)), "probe", {"src": hx(d), "cfg": cfg}))
    # (b) styles A / B
    for _ in range(n // 2):
        if rng.random() < 0.5:
            d = rng.choice(CTX)
        else:
            d = mdgen.gen_doc(rng)
            ls = d.split("\n")
            for _ in range(rng.choice([1, 2, 3])):
                ls.insert(rng.randrange(len(ls) + 1), rng.choice(["@@@", "@@@", "  @@@", "@@@  ", "> @@@", "  @@@"]))
            d = mdgen.clean_utf8("\n".join(ls))
        base = rng.choice(["CsW", "Cs", mdgen.gen_cfg(rng, require="p")])
        pair = rng.choice([("1", "2"), ("6", "7")])
        where = rng.choice(["pre", "post"])
        g = hx(d) + base + pair[0] + where
        for style, code in zip("AB", pair):
            cfg = (code + base) if where == "pre" else (base + code)
            res.append(Case("parse %s 100 R %s" % (cfg, hx(d)), "style" + style, {"g": g, "style": style, "src": hx(d), "cfg": cfg}))
    return res


_a = {}


def oracle(case, io, mo):
    if not io.startswith("ok"):
        return "did not return normally: " + io[:120]
    f = fields(io)
    p = case.params
    if case.tag == "probe":
        pr = f.get("probe", "na")
        if pr == "na":
            return None
        calls, bad, first = pr.split(":")
        if int(bad) > 0:
            return "look-ahead/real contradiction: " + unhx(first).decode("utf-8", "replace")
        return None
    if p["style"] == "A":
        _a[p["g"]] = f["html"]
        return None
    a = _a.get(p["g"])
    if a is not None and a != f["html"]:
        return "HTML differs between the two permitted look-ahead styles of a custom block rule"
    return None


def nontrivial(case, io):
    s = unhx(case.params["src"])
    return b"@@@" in s or b"[" in s


def known_match(k, case, io, msg):
    return k.get("class") == "label-backtick-lookahead" and False
