# C16 -- look-ahead never contradicts, alters or replaces real parsing
import sys, os
sys.path.insert(0, os.path.dirname(os.path.dirname(os.path.abspath(__file__))))
from lib import hx, unhx
import mdgen, corpus
from parsecommon import project, fields, read_html

COQ_TARGETS = ["props/C16.vo"]
RULE = ("(a) dual-run probe (hook): every rule is called in look-ahead mode immediately before its real call in both tokenizer "
        "loops on generated documents, spec inputs and label-heavy soup; a look-ahead acceptance that the real call does not "
        "reproduce with the same extent, or a look-ahead that touches the tree, is a failure; (b) contract-conforming custom block "
        "rule in the two permitted styles (A: advances the line in look-ahead mode like examples/ferris; B: does not), placed first "
        "or last in the chain, with its marker line after paragraphs, list items, block quotes, reference definitions, setext "
        "candidates, fences, at container boundaries; oracle: HTML with style A = HTML with style B and every marker line at block "
        "level yields one custom block. Non-trivial = document contains a custom marker line or a link label; distinct = distinct cases.")
CTX = ["- a\n@@@\nb", "a\n@@@\nb", "> q\n@@@\nb", "- a\n- b\n@@@", "1. a\n@@@", "[r]: /u\n@@@\n[r]", "h\n@@@\n===", "- a\n\n  b\n@@@", "> - a\n> @@@\n@@@", "- a\n  @@@\n@@@\n- b",
       "```\n@@@\n```\n@@@", "    @@@\n@@@", "a\n   @@@  \nb", "@@@\n@@@\n\n@@@", "- @@@", "> @@@", "-\n@@@", "- a\n@@@x\n@@@", "# h\n@@@", "<div>\n@@@\n</div>\n\n@@@", "* a\n  * b\n@@@\n  * c",
       "a\n@@@\n- b\n@@@\n> c\n@@@\n1. d\n@@@"]
LABELS = ["[" + "a &amp; " * 120, "[x " + "[y](u) " * 110 + "](v)", "[" + "*a* `b` " * 70 + "](u) tail *x* [y](z)", "![" + "<http://a.b> " * 105 + "](u) *x*",
          "[a " + "\\* " * 130 + "] [t](u) *e*", "[x``y`]`](u)", "[a`b](c)`", "[`a](b)`](c)", "[a [b](c) d](e)", "![a [b](c) d](e)", "[a\\]](b)", "[a &amp; b](c)", "[a <b c=\"]\"> d](e)", "[<http://a.b/]>](c)", "[*a](b)*", "[a][b]\n\n[b]: /u",
          "[[[a]]](u)", "[a]: /u\n\n[[a]]", "[![a](b)](c)", "[a ``` b](c) ``` d", "[a\nb](c)", "`[a](b`)", "[a`](b)`"]


def cases(rng, tier, Case):
    res = []
    n = 1200 if tier == "quick" else 60000
    # (a) probe
    docs = list(LABELS) + list(CTX)
    for i, d in enumerate(corpus.spec_inputs()):
        if tier == "quick" and i % 3:
            continue
        docs.append(d)
    for _ in range(n):
        docs.append(mdgen.clean_utf8(mdgen.gen_doc(rng)))
    # labels around the 999-character limit of CommonMark, followed by more tokens (seed C16-7)
    for ln in (998, 999, 1000, 1001, 1500):
        lab = ("x" * ln)
        lab2 = ("ab " * (ln // 3 + 1))[:ln]
        for L in (lab, lab2):
            docs += ["see [foo][" + L + "] for *details*", "[" + L + "] `c` [bar]\n\n[bar]: /u", "[" + L + "]: /long\n\n[t][" + L + "] & [" + L + "][] x",
                     "![a][" + L + "] <http://x.y> z"]
    # lines that almost open an HTML block, right after a paragraph / quote / list line: every block tag name, as opening
    # and closing tag, extended by one more character (seed C16-12: look-ahead deciding on a truncated line)
    HTMLNAMES = ("address article aside base basefont blockquote body caption center col colgroup dd details dialog dir div dl dt fieldset figcaption figure "
                 "footer form frame frameset h1 h2 h3 h4 h5 h6 head header hr html iframe legend li link main menu menuitem nav noframes ol optgroup option p param "
                 "section source summary table tbody td tfoot th thead title tr track ul pre script style textarea").split()
    for t in HTMLNAMES:
        for line in ("</" + t + "s bar", "<" + t + "x y", "</" + t + "-x>", "<" + t + "s>", "</" + t + "s>", "<" + t, "</" + t, "<" + t + "/", "<" + t.upper() + "Z>"):
            pre = rng.choice(["a\n", "> q\n", "- i\n", "1. o\n", "a\nb\n"])
            docs.append(pre + line + "\nc")
    for d in docs:
        cfg = rng.choice(["CsW", "CsW", "CsW1", "CsW2", mdgen.gen_cfg(rng)])
        res.append(Case("parse %s 100 RP %s" % (cfg, hx(d)), "probe", {"src": hx(d), "cfg": cfg}))
    # (b) styles A / B
    for _ in range(n // 2):
        if rng.random() < 0.5:
            d = rng.choice(CTX)
        else:
            d = mdgen.gen_doc(rng)
            ls = d.split("\n")
            for _ in range(rng.choice([1, 2, 3])):
                ls.insert(rng.randrange(len(ls) + 1), rng.choice(["@@@", "@@@", "  @@@", "@@@  ", "> @@@", "  @@@"]))
            d = mdgen.clean_utf8("\n".join(ls))
        base = rng.choice(["CsW", "Cs", mdgen.gen_cfg(rng, require="p")])
        pair = rng.choice([("1", "2"), ("6", "7")])
        where = rng.choice(["pre", "post"])
        g = hx(d) + base + pair[0] + where
        for style, code in zip("AB", pair):
            cfg = (code + base) if where == "pre" else (base + code)
            res.append(Case("parse %s 100 R %s" % (cfg, hx(d)), "style" + style, {"g": g, "style": style, "src": hx(d), "cfg": cfg}))
    # (c) a rule registered twice and removed: it is consulted neither for real nor in look-ahead (seed C16-10); reference
    # history: the rule registered once and removed
    TW = [("f", "F", "f", "a\n```\nb\n```\nc"), ("f", "f", "f", "- a\n~~~\nb"), ("F", "f", "f", "> a\n```\nb"), ("1", "1", "1", "a\n@@@\nb\n\n- c\n@@@"),
          ("X", "X", "X", "a\n<div>\nb"), ("q", "q", "q", "a\n> b\n- c\n> d"), ("H", "H", "H", "a\n# b\n- c\n# d"), ("h", "h", "h", "a\n***\nb\n- c\n***"),
          ("u", "u", "u", "a\n- b\n> c\n1. d"), ("1", "6", "1", "- a\n@@@\nb"), ("2", "7", "2", "> a\n@@@\nb"), ("c", "c", "c", "- a\n\n      b"), ("L", "L", "L", "a\n===\n- b\n---")]
    for a1, a2, rm, d in TW:
        for base in ("C", "CsW", "nebmliatp"):
            first = a1 if a1 not in "fqhHucXL" or base == "nebmliatp" else ""     # C already holds these rules once
            g = "tw" + a1 + a2 + rm + base + hx(d)
            twice = "+%s;%s+%s;-%s;P%s" % (base, ("+" + first + ";") if first else "", a2, rm, hx(d))
            once = "+%s;%s-%s;P%s" % (base, ("+" + first + ";") if first else "", rm, hx(d))
            res.append(Case("hist 100 R %s" % once, "once", {"g": g, "style": "A", "src": hx(d), "cfg": base}))
            res.append(Case("hist 100 R %s" % twice, "twice", {"g": g, "style": "T", "src": hx(d), "cfg": base}))
    # (d) one inline token longer than 65535 bytes inside brackets that look-ahead walks more than once (seed C16-9: an
    # extent memoised in 16 bits); oracle only (the extracted model is too slow at this size)
    for size in ((65530, 65536, 70000) if tier == "quick" else (255, 256, 65530, 65535, 65536, 65537, 70000, 131072)):
        for d, want in (("[ [ `" + "a" * size + "]b` ] ](/x)", ['<a href="/x">', "<code>"]), ("[x [y](u) `" + "a" * size + "` z](/v)", ['<a href="u">', "<code>"]),
                        ("[[" + "a" * size + "]](/x)", ['<a href="/x">']), ("![[<http://a.b/" + "c" * size + ">]](/x) *e*", ['<img src="/x"', "<em>e</em>"]),
                        ("[ [ " + "\\*" * (size // 2) + " ] ](/x)", ['<a href="/x">'])):
            res.append(Case("parse CsW 100 RP %s" % hx(d), "probe", {"src": hx(d), "cfg": "CsW", "want": want}, compare=False))
    # (e) a line that a terminator rule accepts in look-ahead at NEGATIVE indentation inside an item, but that is indented
    # code once the item has ended (wide ordered markers): what look-ahead announced is not what parsing produces
    # (known finding F16).  Controls: the same line indented less than four columns (a real block start) and the same
    # line inside the item.
    for mk in ("123456789. ", "1234567. ", "12345. ", "123456789) "):
        w = len(mk)
        for start, tagname in (("# b", "h1"), ("> b", "blockquote"), ("***", "hr"), ("- b", "ul"), ("```", "pre")):
            for k in (4, 5, w - 1, 1, w):
                if k >= w and k != w:
                    continue
                d = mk + "a\n" + " " * k + start
                kind = "neg" if 4 <= k < w else ("ctl-out" if k < 4 else "ctl-in")
                res.append(Case("parse CsW 100 RP %s" % hx(d), "negindent", {"src": hx(d), "cfg": "CsW", "style": "N", "kind": kind, "tag": tagname}))
    return res


_a = {}


def oracle(case, io, mo):
    if not io.startswith("ok"):
        return "did not return normally: " + io[:120]
    f = fields(io)
    p = case.params
    if case.tag == "probe":
        pr = f.get("probe", "na")
        if pr == "na":
            pr = "0:0:"
        calls, bad, first = pr.split(":")
        if int(bad) > 0:
            return "look-ahead/real contradiction: " + unhx(first).decode("utf-8", "replace")
        html = unhx(f["html"]).decode("utf-8", "replace")
        for w in p.get("want", []):
            if w not in html:
                return "a construct that look-ahead walked over is not produced with the same extent: %s missing from the HTML" % w
        return None
    if p["style"] == "N":
        html = unhx(f["html"]).decode("utf-8", "replace")
        # what look-ahead announced must be what parsing produces: either the announced block, or -- when nothing may
        # interrupt the paragraph -- a continuation line; never an indented code block made of the announced line
        if p["kind"] == "neg" and "<pre><code> " in html:
            return "NEGINDENT a %s announced by look-ahead inside the item is parsed as indented code after the item" % p["tag"]
        if p["kind"] != "neg" and "<pre><code> " in html:
            return "block start turned into indented code"
        return None
    if p["style"] == "A":
        _a[p["g"]] = f["html"] if case.tag != "once" else project(io)[3:].split(";")[-1]
        return None
    if p["style"] == "T":
        a = _a.get(p["g"])
        if a is not None and a != project(io)[3:].split(";")[-1]:
            return "a rule registered twice and removed still acts (the parse differs from that of a parser where it was registered once and removed)"
        return None
    a = _a.get(p["g"])
    if a is not None and a != f["html"]:
        return "HTML differs between the two permitted look-ahead styles of a custom block rule"
    return None


def nontrivial(case, io):
    s = unhx(case.params["src"])
    return b"@@@" in s or b"[" in s


def known_match(k, case, io, msg):
    return k.get("class") == "negative-indent-lookahead" and msg.startswith("NEGINDENT ")
