# C05 -- every node carries a valid, nested, ordered and faithful source range
import sys, os, re
sys.path.insert(0, os.path.dirname(os.path.dirname(os.path.abspath(__file__))))
from lib import hx, unhx
import mdgen, corpus
from parsecommon import project, fields, parse_tree, text_arg

COQ_TARGETS = ["props/C05.vo"]
RULE = ("parse cases with the paragraph rule present: generated documents biased to tabs after block markers, multi-byte text, "
        "CR/CRLF, inline content in non-first paragraphs and inside quotes/lists, trimmed trailing spaces before breaks, emphasis "
        "and links spanning lines, plus spec inputs and mutations; oracle on the dumped tree: 0<=start<=end<=len on character "
        "boundaries, root = [0,len), child within parent, siblings ordered and disjoint, single-line Text selects its content, "
        "TextSpecial selects its markup. Non-trivial = the document has at least two blocks or a container; distinct = distinct cases.")


def biased_doc(rng):
    d = mdgen.gen_doc(rng)
    k = rng.random()
    if k < 0.25:
        d = rng.choice(["x\n\n", "é\n\n", "> q\n\n", "- l\n\n"]) + d
    if k > 0.5:
        d = d.replace("- ", rng.choice(["-\t", "- ", " -\t", "-  \t"]), 1).replace("> ", rng.choice([">\t", "> ", ">\t\t", " >\t"]), 1)
    if rng.random() < 0.2:
        d = d.replace("\n", rng.choice(["\r\n", "\r"]))
    if rng.random() < 0.3:
        d = d.replace(" ", rng.choice(["  ", "\t", " "]), rng.choice([1, 2]))
    return mdgen.clean_utf8(d)


FIXED = ["a\n\n*b*", "-\tfoo *x*", "x\n\nfoo \nbar", ">+   \n`", ">\t<", "+ é\n\t&amp;**", "1. > # b  \n   c", "> a\n> *b\n> c*", "- a\n\n  b *c*\n", "\t\tfoo *a*",
         "  - a\n\n\t b", "> \tcode", ">\t\tx *y*", "*a\nb*", "[a\nb](u)", "`a\nb`", "a  \nb", "a\\\nb", "# h *e*", "h *e*\n===", "é*é*é", "&amp;\\*", "<http://a.b>\n\n<c@d.e>",
         # witness of known finding F13 (split tab inside a code span) and neighbours that must be fine
         ">``\n>\t``", "> `a\n>\t b`", "- `a\n\t b`", ">\t`a b`", "> `a\tb`"]


def cases(rng, tier, Case):
    res = []
    n = 2500 if tier == "quick" else 120000
    for d in FIXED:
        for cfg in ("CsW", "Cs"):
            res.append(Case("parse %s 100 T %s" % (cfg, hx(d)), "fixed", {"cfg": cfg, "src": hx(d)}))
    for i, d in enumerate(corpus.spec_inputs()):
        if tier == "quick" and i % 4:
            continue
        res.append(Case("parse CsW 100 T %s" % hx(d), "spec", {"cfg": "CsW", "src": hx(d)}))
    for _ in range(n):
        d = biased_doc(rng)
        cfg = rng.choice(["CsW", "CsW", "Cs", mdgen.gen_cfg(rng, require="p")])
        res.append(Case("parse %s 100 T %s" % (cfg, hx(d)), "gen", {"cfg": cfg, "src": hx(d)}))
    # characters a parser might be tempted to strip or normalise before it records offsets: a byte order mark (seed C05-9),
    # other format characters, NUL, at the very start of the document and of later lines
    for lead in ("\ufeff", "\ufeff\ufeff", "\u200b", "\u2060", "\0", "\u00ad", "\ufeff \t", "\u200e"):
        for d in ("# h *e*\n\npara `c` &amp; \\*", "*a* [l](u)\n> q\n\n- i", "&amp; text\n===", "```\nx\n```\n\n    code"):
            for doc in (lead + d, d.replace("\n", "\n" + lead, 1), "x\n\n" + lead + d):
                res.append(Case("parse CsW 100 T %s" % hx(doc), "lead", {"cfg": "CsW", "src": hx(doc)}))
    return res


def boundary(src, p):
    return p == len(src) or p == 0 or (p < len(src) and not (128 <= src[p] < 192))


def ranges_ok(src, nodes):
    root = nodes[0]
    if root.kind != "Root" or (root.start, root.end) != (0, len(src)):
        return "root range %r-%r is not [0,%d)" % (root.start, root.end, len(src))
    for n in nodes:
        if n.start is None:
            return "%s has no range" % n.kind
        if not (0 <= n.start <= n.end <= len(src)):
            return "%s range [%d,%d) invalid for a %d-byte document" % (n.kind, n.start, n.end, len(src))
        if not boundary(src, n.start) or not boundary(src, n.end):
            return "%s range [%d,%d) not on character boundaries" % (n.kind, n.start, n.end)
        p = n.parent
        if p is not None and not (p.start <= n.start and n.end <= p.end):
            return "%s [%d,%d) not within parent %s [%d,%d)" % (n.kind, n.start, n.end, p.kind, p.start, p.end)
        prev_end = None
        for c in n.children:
            if c.start is None:
                continue
            if prev_end is not None and c.start < prev_end:
                return "siblings under %s overlap or are out of order at [%d,%d)" % (n.kind, c.start, c.end)
            prev_end = c.end
        seg = src[n.start:n.end]
        if n.kind == "Text" and b"\n" not in seg and b"\r" not in seg:
            if n.parent is not None and n.parent.kind in ("CodeInline", "Autolink"):
                pass
            if seg != text_arg(n):
                # known finding F13: inside a code span, a tab split by a container marker appears as the 1-3 spaces it expands to
                segs = [seg] + ([seg + b"\t"] if src[n.end:n.end + 1] == b"\t" else [])
                if n.parent is not None and n.parent.kind == "CodeInline" and any(b"\t" in sg and
                        re.fullmatch(b"".join((b" {1,3}" if bytes([c]) == b"\t" else re.escape(bytes([c]))) for c in sg), text_arg(n)) for sg in segs):
                    return "SPLITTAB Text node [%d,%d) in a code span selects %r but holds the expansion %r of a split tab" % (n.start, n.end, seg[:40], text_arg(n)[:40])
                return "Text node [%d,%d) selects %r but its content is %r" % (n.start, n.end, seg[:40], text_arg(n)[:40])
        if n.kind == "TextSpecial" and seg != text_arg(n, 1):
            return "TextSpecial [%d,%d) selects %r but its markup is %r" % (n.start, n.end, seg[:40], text_arg(n, 1)[:40])
    return None


def oracle(case, io, mo):
    if not io.startswith("ok"):
        return "did not return normally: " + io[:120]
    f = fields(io)
    src = unhx(case.params["src"])
    return ranges_ok(src, parse_tree(f["tree"]))


def nontrivial(case, io):
    return fields(io).get("tree", "").count(";") >= 4


def known_match(k, case, io, msg):
    return k.get("class") == "split-tab-code-span" and msg.startswith("SPLITTAB ")


def shrink(case, hb, drv, Case, lib):
    from check import shrink_bytes
    p = case.params

    def fails(b):
        line = "parse %s 100 T %s" % (p["cfg"], hx(b))
        io = lib.run_proto(hb, [line], timeout=30)[0]
        return oracle(Case(line, "s", {"cfg": p["cfg"], "src": hx(b)}), io, None) is not None
    small = shrink_bytes(unhx(p["src"]), fails)
    return {"src_hex": hx(small), "src": small.decode("utf-8", "replace"), "cfg": p["cfg"]}
