# C08 -- effective rule chains depend only on add/remove calls, not on intervening parses
import sys, os
sys.path.insert(0, os.path.dirname(os.path.dirname(os.path.abspath(__file__))))
from lib import hx, unhx
import mdgen
from parsecommon import project, fields

COQ_TARGETS = ["props/C08.vo"]
RULE = ("hist cases: histories of add-plugin / remove-rule / has_rule / Debug / parse calls on one parser (block, inline incl. "
        "letter- and punctuation-marker custom rules, core rules; removal of rules that were never added; re-adding after removal) "
        "and the same history with every parse but the last deleted; ruler cases: the same at the level of Ruler<u32,u32> (add with "
        "aliases/constraints, remove by own mark or alias, contains, iter, Debug). Oracle: final parse result equal in both histories; "
        "has_rule answers equal; Debug never panics; a removed rule is absent from iter. Non-trivial = a configuration call follows a parse; "
        "distinct = distinct histories.")
ADD = list("nebmliatcfqhurHLpsxXS") + list("12345678") + ["g", "G", "z", "z"]
REM = list("nebmMsliEatxcfqhurHLpXSJ") + list("123458") + ["Z", "Z"]
DOCS = ["xx a xx %% b", "*a* _b_ ~~c~~ `d`", "- a\n@@@\nb", "> q\n@@@", "# h\n\n    code\n\n```\nf\n```", "[a](u) ![b](v) <http://x.y> &amp; \\*", "a\nb  \nc", "<b>x</b>\n\n<div>\ny\n</div>",
        "1. x\n2. y\n\n---\n\nt\n===", "~~old~~ H~2~O ~y~ ~~~z~~~", "a ~~b~~ c ~d~ e", "[r]: /u\n\n[r] xx", "t <b>x</b> u <http://a.b> v &amp; w", "p *q <i>r</i>* s ![t](u) <x@y.z> end"]


def gen_history(rng):
    ops = []
    ops.append(("+", mdgen.gen_cfg(rng)))
    for _ in range(rng.choice([2, 3, 5, 8])):
        k = rng.random()
        if k < 0.35:
            ops.append(("P", rng.choice(DOCS) if rng.random() < 0.7 else mdgen.clean_utf8(mdgen.gen_doc(rng))))
        elif k < 0.6:
            ops.append(("+", rng.choice(ADD)))
        elif k < 0.85:
            ops.append(("-", rng.choice(REM)))
        elif k < 0.93:
            ops.append(("?", "".join(rng.sample(REM, 4))))
        else:
            ops.append(("D", ""))
    ops.append(("?", "".join(rng.sample(REM, 5))))
    ops.append(("D", ""))
    ops.append(("P", rng.choice(DOCS) + "\n\n" + rng.choice(DOCS)))
    return ops


def script(ops):
    return ";".join((o + (hx(a) if o == "P" else a)) for o, a in ops)


def cases(rng, tier, Case):
    res = []
    n = 400 if tier == "quick" else 15000
    for _ in range(n):
        ops = gen_history(rng)
        erased = [x for i, x in enumerate(ops) if x[0] != "P" or i == len(ops) - 1]
        nest = 100
        g = script(ops)
        res.append(Case("hist %d R %s" % (nest, g), "full", {"g": g, "role": "full"}))
        res.append(Case("hist %d R %s" % (nest, script(erased)), "erased", {"g": g, "role": "erased"}))
    # exhaustive short histories over {add c, remove c, parse} for one rule at a time
    import itertools
    probe = "xx a %% b *c* [d](e) `f`\n\n@@@\n\n- g\n@@@\n\n# h"
    for c, r in (("3", "3"), ("4", "4"), ("1", "1"), ("5", "5"), ("m", "m"), ("l", "l"), ("b", "b"), ("H", "H"), ("s", "s"), ("2", "2")):
        for k in (2, 3, 4):
            for seq in itertools.product("+-P", repeat=k):
                if "P" not in seq or seq[-1] == "P":
                    continue
                for base in ("C", "C3", "nebp3"):
                    if k == 4 and base != "C":
                        continue
                    ops = [("+", base)] + [(("+", c) if x == "+" else ("-", r) if x == "-" else ("P", probe)) for x in seq] + [("?", r + "3m"), ("D", ""), ("P", probe + " ~~s~~ %% p")]
                    erased = [x for i, x in enumerate(ops) if x[0] != "P" or i == len(ops) - 1]
                    g = script(ops)
                    res.append(Case("hist 100 R %s" % g, "full", {"g": g, "role": "full"}))
                    res.append(Case("hist 100 R %s" % script(erased), "erased", {"g": g, "role": "erased"}))
    # removal of a rule that is not (or no longer) registered while another rule shares its marker character
    probe2 = "t <b>x</b> u <http://a.b> v *w* _x_ [y](z) ![i](j) %% xx % k % end"
    for r1 in "axmMliE348sb":
        for pat in ("+CWs348;P;-%s;-%s;P", "+CWs348;-%s;P;-%s;P", "+CW;P;-%s;P;+%s;P", "+nebp;P;-%s;-%s;+CW;P", "+CWs348;-%s;-%s;P"):
            ops = []
            k_ = 0
            for part in pat.split(";"):
                if part == "P":
                    ops.append(("P", probe2))
                else:
                    ops.append((part[0], part[1:].replace("%s", r1 if part[0] == "-" else {"M": "m", "E": "l"}.get(r1, r1))))
            ops += [("?", "axml"), ("D", ""), ("P", probe2)]
            erased = [x for i, x in enumerate(ops) if x[0] != "P" or i == len(ops) - 1]
            g = script(ops)
            res.append(Case("hist 100 R %s" % g, "full", {"g": g, "role": "full"}))
            res.append(Case("hist 100 R %s" % script(erased), "erased", {"g": g, "role": "erased"}))
    # use of a parser (or one ruler) before any rule exists, configuration afterwards
    for pat in ("P;+C;P", "D;+C;P", "P;+n;P;+e;P", "+n;-n;P;+CW;P", "P;+nebp;P;-b;P;+b;P", "P;+m;+l;P", "+C;-b;-a;P;+3;+4;P", "P;+s;P;+1;P"):
        ops = []
        for part in pat.split(";"):
            ops.append(("P", probe2) if part == "P" else ("D", "") if part == "D" else (part[0], part[1:]))
        ops += [("?", "axml"), ("D", ""), ("P", probe2 + "\n\n# h\n\n- i")]
        erased = [x for i, x in enumerate(ops) if x[0] != "P" or i == len(ops) - 1]
        g = script(ops)
        res.append(Case("hist 100 R %s" % g, "full", {"g": g, "role": "full"}))
        res.append(Case("hist 100 R %s" % script(erased), "erased", {"g": g, "role": "erased"}))
    # a second pair length for a marker that already has one, added after a parse in which that marker paired up (seed C08-9:
    # a table built lazily at the first matched pair and not reset by emph_pair::add_with)
    tilde = "~~old~~ H~2~O ~y~ ~~~z~~~ *a* **b**"
    for pat in ("+Cs;P;+z;P", "+s;+p;P;+z;P", "+Cs;P;+z;P;-s;P", "+z;+p;P;+s;P", "+Csz;P;-s;P;+s;P", "+C;P;+s;P;+z;P", "+Cz;P;+s;P", "+nebp;+s;P;+z;+m;P"):
        ops = []
        for part in pat.split(";"):
            ops.append(("P", tilde) if part == "P" else (part[0], part[1:]))
        ops += [("?", "sm"), ("D", ""), ("P", tilde + "\n\nx ~~s~~ ~t~")]
        erased = [x for i, x in enumerate(ops) if x[0] != "P" or i == len(ops) - 1]
        g = script(ops)
        res.append(Case("hist 100 R %s" % g, "full", {"g": g, "role": "full"}))
        res.append(Case("hist 100 R %s" % script(erased), "erased", {"g": g, "role": "erased"}))
    # a rule with a new marker added after a parse that scanned link labels must act INSIDE labels too (seed C08-11), and
    # exactly 254..258 / 510..514 configuration calls between two parses (seed C08-12: a validity counter that wraps)
    lab = "[l *e*](u) [m `c`][r] ![i](v)\n\n[r]: /w"
    inlab = "[x %]% y](/u) [p %%] q](/v) [a xx] b](/w) [s ~~]~~ t](/z) a xx b %% c"
    for c in "348sz":
        for pat in ("+C;P;+%s;P", "+nelip;P;+%s;P", "+C;P;+%s;-%s;+%s;P", "+C;+%s;P;-%s;P;+%s;P"):
            ops = []
            for part in (pat.replace("%s", c)).split(";"):
                ops.append(("P", lab) if part == "P" else (part[0], part[1:] if part[0] == "+" else part[1:].replace("z", "s")))
            ops += [("?", "348s"), ("D", ""), ("P", inlab)]
            erased = [x for i, x in enumerate(ops) if x[0] != "P" or i == len(ops) - 1]
            g = script(ops)
            res.append(Case("hist 100 R %s" % g, "full", {"g": g, "role": "full"}))
            res.append(Case("hist 100 R %s" % script(erased), "erased", {"g": g, "role": "erased"}))
    for t in (254, 255, 256, 257, 258, 510, 511, 512, 513, 514) if tier != "quick" else (255, 256, 257, 512):
        for a, b, doc in (("3", "4", "a xx b"), ("4", "3", "a %% b"), ("8", "3", "a %b% c"), ("s", "3", "a ~~b~~ c")):
            calls = [("+", a), ("-", a)] * ((t - 1) // 2) + ([("+", b)] if (t - 1) % 2 else []) + [("+", a)]
            ops = [("+", "nep"), ("P", "plain words only")] + calls + [("?", "348s"), ("D", ""), ("P", doc)]
            erased = [x for i, x in enumerate(ops) if x[0] != "P" or i == len(ops) - 1]
            g = script(ops)
            res.append(Case("hist 100 R %s" % g, "full", {"g": g, "role": "full"}))
            res.append(Case("hist 100 R %s" % script(erased), "erased", {"g": g, "role": "erased"}))
    for pre in ("i", "d", "i;d", "c1;i"):
        for body in ("a1,1", "a1,1;a2,2:l1", "a1,1;i;a2,2:b1", "a3,1:B;a1,2"):
            tail6 = ["c1", "c2", "c3", "c9", "i", "d"]
            full = pre.split(";") + body.split(";") + tail6
            erased = [x for x in pre.split(";") + body.split(";") if x[0] not in "id"] + tail6
            g = ";".join(full)
            res.append(Case("ruler " + g, "rfull", {"g": g, "role": "rfull"}))
            res.append(Case("ruler " + ";".join(erased), "rerased", {"g": g, "role": "rerased"}))
    # Ruler-level histories
    for _ in range(n):
        items = []
        m = rng.choice([2, 3, 4, 6])
        ops = []
        for i in range(m):
            mods = ""
            for _ in range(rng.choice([0, 0, 1, 2])):
                mods += ":" + rng.choice(["l", "l", "f", "b"]) + str(rng.choice([1, 2, 3, 4, 9]))
            if rng.random() < 0.2:
                mods += rng.choice([":B", ":A"])
            ops.append("a%d,%d%s" % (rng.choice([1, 2, 3, 4]), i + 1, mods))
        mid = []
        for _ in range(rng.choice([1, 2, 3])):
            mid.append(rng.choice(["i", "d", "i"]))
            def mods_():
                m_ = ""
                for _ in range(rng.choice([0, 1, 1, 2])):
                    m_ += ":" + rng.choice(["l", "l", "f", "b", "b"]) + str(rng.choice([1, 2, 3, 4, 7, 9]))
                return m_
            mid.append(rng.choice(["r%d" % rng.choice([1, 2, 3, 4, 7, 9]), "a%d,%d" % (rng.choice([1, 2, 5]), 20 + len(mid)),
                                   "a%d,%d%s" % (rng.choice([5, 6, 8]), 30 + len(mid), mods_()), "a%d,%d%s" % (rng.choice([5, 6, 8]), 40 + len(mid), mods_()),
                                   "c%d" % rng.choice([1, 2, 3, 7, 9])]))
        full = ops + mid + ["c1", "c2", "c3", "c9", "i", "d"]
        erased = ops + [x for x in mid if x[0] not in "id"] + ["c1", "c2", "c3", "c9", "i", "d"]
        g = ";".join(full)
        res.append(Case("ruler " + g, "rfull", {"g": g, "role": "rfull"}))
        res.append(Case("ruler " + ";".join(erased), "rerased", {"g": g, "role": "rerased"}))
    return res


_full = {}


def tail_results(io, count):
    parts = io[3:].split(";")
    return parts[-count:]


def oracle(case, io, mo):
    if not io.startswith("ok"):
        return "did not return normally: " + io[:120]
    p = case.params
    if p["role"] in ("full", "rfull"):
        _full[(p["role"], p["g"])] = io
        if "D[panic" in io or ";dP" in io and "Cyclic" not in io and "Missing" not in io:
            return "Debug-printing the chain panics"
        return None
    base = _full.get(("full" if p["role"] == "erased" else "rfull", p["g"]))
    if base is None:
        return None
    if p["role"] == "erased":
        # compare the trailing "?.....;D[..];P[...]" of both histories
        a = project(base)[3:].split(";")[-3:]
        b = project(io)[3:].split(";")[-3:]
        if a[2] != b[2]:
            return "final parse differs when the intermediate parse calls are deleted from the history"
        if a[0] != b[0]:
            return "has_rule answers differ when intermediate parses are deleted"
        if a[1] != b[1]:
            return "Debug outcome differs when intermediate parses are deleted"
    else:
        a = base[3:].split(";")[-6:]
        b = io[3:].split(";")[-6:]
        if a != b:
            return "Ruler: contains/iter/Debug differ when intermediate iter/Debug calls are deleted: %s vs %s" % (";".join(a), ";".join(b))
    return None


def nontrivial(case, io):
    return True


def known_match(k, case, io, msg):
    return False
