# C02 -- nesting limit bounds tree depth and recursion for any input
import sys, os
sys.path.insert(0, os.path.dirname(os.path.dirname(os.path.abspath(__file__))))
from lib import hx, unhx
import mdgen
from parsecommon import project, fields, parse_tree

COQ_TARGETS = ["props/C02.vo"]
SECOND_BUILD = "noopt"
RELEASE_SAME = False
RELEASE_TOO = False
RULE = ("parse cases from adversarial nesting families (block quotes, bullet/ordered lists, links, images, brackets, mixed, emphasis, "
        "code spans, HTML) at depths 1x..200x the limit, plus generated documents, x limits {0,1,2,3,10,100}; the oracle demands "
        "tree depth <= 3*limit+4 not counting emphasis wrappers, measured recursion gauge (hook) <= limit+2, and that the recursive "
        "walk over the result returns. Emphasis-only excess is the listed known finding F3. Non-trivial = depth of the input family "
        "exceeds the limit; distinct = distinct (limit, document).")
EMPH = ("Em", "Strong", "Strikethrough")


def families(rng, nest, big):
    k = lambda m: max(1, int(m))
    depths = [nest + 1, 2 * nest + 3, 10 * nest + 7] + ([200 * max(nest, 5)] if big else [40 * max(nest, 3)])
    out = []
    for d in depths:
        d = min(d, 4000 if big else 1200)
        out += [">" * d + " a", "> " * d + "a", "- " * d + "a", "1. " * min(d, 300) + "a", "[" * d + "a" + "]" * d, "[" * d,
                "![" * d + "a" + "](u)" * d, "[a" * d + "](u)" * d, "[![" * (d // 2) + "a" + "](u)](v)" * (d // 2),
                "> - " * (d // 2) + "a", "- > " * (d // 2) + "a", "[" * d + "a](u)", "![" * d + "a",
                "`" * d + "a" + "`" * d, "<" * d, "[a][" * d, "\\[" * d, "&amp;" * d]
        dd = min(d, 400)
        out += ["\n".join("> " * i + "-\n" + "> " * i + ">".rstrip() for i in range(dd)).replace("> >", "> >"),
                "\n".join(("> " * i + "-\n" + ("> " * i).rstrip()) for i in range(dd)),
                "\n\n".join("  " * i + "- *" for i in range(dd)), "\n\n".join("  " * i + "-" for i in range(dd)),
                "\n".join("   " * i + "1. " + ("\n" + "   " * i if i % 2 else "") for i in range(min(dd, 200)))]
        out += ["*a **b " * d + "c" + " b** a*" * d, "*" * d + "a" + "*" * d, "~~a **b " * (d // 2) + "c" + " b** a~~" * (d // 2),
                "_a __b " * d + "c" + " b__ a_" * d]
    return out


def cases(rng, tier, Case):
    res = []
    big = tier != "quick"
    for nest in (0, 1, 2, 3, 10, 100):
        for d in families(rng, nest, big):
            for cfg in ("CsW",) + (("CsWS", mdgen.gen_cfg(rng)) if big else ()):
                res.append(Case("parse %s %d TW %s" % (cfg, nest, hx(d)), "family", {"cfg": cfg, "nest": nest, "src": hx(d)}, compare=len(d) < 400))
        # containers other than links: the generic pair with nested inline parsing (distinct run lengths nest)
        for d in (nest + 2, 3 * nest + 5, 60):
            inner = "x"
            for i in range(1, d + 1):
                inner = "%" * i + " " + inner + " " + "%" * i
            outer = "a"
            for i in range(d, 0, -1):
                outer = "%" * i + " " + outer + " " + "%" * i
            for doc in (inner, outer, "![" * 3 + outer + "](u)" * 3, "*" + outer + "*"):
                for cfg in ("8Cs", "Cs8", "nebp8"):
                    res.append(Case("parse %s %d TW %s" % (cfg, nest, hx(doc)), "family", {"cfg": cfg, "nest": nest, "src": hx(doc)}, compare=len(doc) < 400))
    # wide, flat trees: recursion (walk, walk_mut, render, drop) is per level, never per sibling (seed C02-8)
    for w in (3000, 20000):
        for d in ("a\n\n" * w, "- a\n" * w, "*a* " * min(w, 6000), "> a\n\n" * w, "# a\n" * w, "a\\\n" * w, "[a](u)" * w):
            # (delimiter matching is quadratic in the number of runs: the emphasis family stays at 6000 so that an unoptimised
            # build under load stays far from the per-line time limit)
            res.append(Case("parse CsW 100 TW %s" % hx(d), "wide", {"cfg": "CsW", "nest": 100, "src": hx(d)}, compare=False))
    # the limit is a public field of the parser object: lowering (or raising) it between two parses must bound the NEXT parse
    # by the new value (seed C02-9: the limit copied into the compiled chains at first use)
    for n0, n1 in ((100, 2), (5000, 10), (6, 1), (2, 100), (100, 0), (3, 3)):
        for d in (">" * 90 + " a", "- " * 60 + "a", "[" * 80 + "a" + "]" * 80, "![" * 40 + "a" + "](u)" * 40, "> - " * 30 + "a"):
            for warm in ("warm *up* `x` [l](u)\n\n> q\n\n- i", ">" * 20 + " w"):
                script = "+CsW;P%s;N%d;P%s" % (hx(warm), n1, hx(d))
                res.append(Case("hist %d TW %s" % (n0, script), "renest", {"cfg": "CsW", "nest": n1, "src": hx(d)}, compare=len(d) < 400))
    n = 300 if tier == "quick" else 20000
    for _ in range(n):
        d = mdgen.clean_utf8(mdgen.gen_doc(rng))
        nest = rng.choice([0, 1, 2, 3, 10])
        cfg = mdgen.gen_cfg(rng)
        res.append(Case("parse %s %d TW %s" % (cfg, nest, hx(d)), "gen", {"cfg": cfg, "nest": nest, "src": hx(d)}))
    return res


def depths(tree):
    """(full depth, depth not counting emphasis wrappers)"""
    nodes = parse_tree(tree)
    full = 0
    ne = {}
    best = 0
    for n in nodes:
        full = max(full, n.depth)
        pd = ne[id(n.parent)] if n.parent is not None else -1
        d = pd + (0 if n.kind in EMPH else 1)
        ne[id(n)] = d
        best = max(best, d)
    return full, best


def oracle(case, io, mo):
    nest = case.params["nest"]
    if not io.startswith("ok "):
        return "did not return normally (stack exhaustion aborts the process): " + io[:120]
    if case.tag == "renest":
        # judge the last parse of the history against the limit in force when it ran
        last = io[io.rindex(";P[") + 3:-1]
        if not last.startswith("ok "):
            return "did not return normally: " + last[:120]
        io = last
    f = fields(io)
    bound = 3 * nest + 4
    full, noemph = depths(f["tree"])
    if noemph > bound:
        return "tree depth %d (not counting emphasis) exceeds 3*limit+4 = %d" % (noemph, bound)
    g = f.get("gauge", "na")
    if g != "na" and int(g) > nest + 2:
        return "recursion gauge %s exceeds limit+2 = %d" % (g, nest + 2)
    if "walk" not in f:
        return "walk did not complete"
    if "wstk" in f:
        wd = int(f["walk"].split("/")[1])
        if int(f["wstk"]) > 4096 * (wd + 8):
            return "walk/walk_mut used %s bytes of stack on a tree of depth %d: recursion is not bounded by the depth" % (f["wstk"], wd)
    if full > bound:
        return "EMPH tree depth %d exceeds 3*limit+4 = %d through emphasis wrappers only" % (full, bound)
    return None


def nontrivial(case, io):
    return case.tag == "family"


def known_match(k, case, io, msg):
    return k.get("class") == "emphasis-nesting" and msg.startswith("EMPH ")
