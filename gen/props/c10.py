# C10 -- output is independent of line-ending convention and of a final newline
import sys, os
sys.path.insert(0, os.path.dirname(os.path.dirname(os.path.abspath(__file__))))
from lib import hx, unhx
import mdgen, corpus
from parsecommon import project, fields

COQ_TARGETS = ["props/C10.vo"]
RULE = ("for CR-free documents D (generated, spec inputs, constructs left open at end of input: fences, HTML blocks, reference "
        "definitions, lazy lines, hard breaks, titles spanning lines) parses of D, D with every LF -> CRLF, D with every LF -> CR, "
        "and D plus one final LF when D does not end with one, under random plugin sets; oracle: identical HTML. "
        "Non-trivial = D contains a line ending; distinct = distinct D.")
OPEN = ["```\ncode", "~~~ x\na\n\nb", "<div>\nx", "<!-- c\nd", "<script>\nx\n\ny", "[r]: /u\n'title\nmore'", "[r]:\n/u", "> a\nlazy", "- a\n  b\n\n  c", "a  \nb", "a\\\nb", "    code\n\n    more",
        "#", "##", "######", "a\n#", "> #", "- ##", "# h\n#", "---", "***", "- a\n-", "1.", "a\n===", "a\n-", ">", "    ", "```", "~~~", "<div>", "[r]: /u", "&amp;", "\\", "`a`", "a  ", "a\\",
        "[a\nb](u\n'c\nd')", "`a\nb`", "*a\nb*", "<a\nb>", "h\n===", "h\n---", "# h\n", "&amp;\n", "1. a\n\n   b\n2. c"]


def cases(rng, tier, Case):
    res = []
    n = 800 if tier == "quick" else 40000
    docs = list(OPEN)
    for i, d in enumerate(corpus.spec_inputs()):
        if tier == "quick" and i % 5:
            continue
        docs.append(d)
    for _ in range(n):
        docs.append(mdgen.clean_utf8(mdgen.gen_doc(rng)))
    # constructs whose extent crosses a round size (a limit counted in bytes would count the line terminators)
    for total in (510, 1010, 1023, 2040) if tier == "quick" else (120, 250, 510, 1000, 1010, 1020, 1023, 1024, 2040, 4090, 8180, 16370, 65530):
        for per in ((63, 1023) if tier == "quick" else (63, 31, 1023)):
            nl = max(1, total // (per + 1))
            body = "\n".join("w" * per for _ in range(nl))
            docs += [body + "\n===", body + "\n---\n", "> " + body.replace("\n", "\n> ") + "\n", "- " + body.replace("\n", "\n  ") + "\n",
                     "```\n" + body + "\n```", "[r]: /u '" + body + "'\n\n[r]", "[" + body[:900] + "](/u)", "`" + body + "`", "*" + body + "*",
                     "<div>\n" + body + "\n</div>", "    " + body.replace("\n", "\n    "), "# " + "w" * min(total, 4000)]
    for d in docs:
        d = d.replace("\r\n", "\n").replace("\r", "\n")
        cmp_ = len(d) <= 4200          # the extracted model is too slow on documents of tens of kilobytes: oracle only
        cfg = rng.choice(["CsW", "CsW", "CsWS", mdgen.gen_cfg(rng, forbid="S"), mdgen.gen_cfg(rng)])
        g = hx(d) + cfg
        res.append(Case("parse %s 100 R %s" % (cfg, hx(d)), "lf", {"g": g, "role": "base", "src": hx(d)}, compare=cmp_))
        res.append(Case("parse %s 100 R %s" % (cfg, hx(d.replace("\n", "\r\n"))), "crlf", {"g": g, "role": "crlf", "src": hx(d)}, compare=cmp_))
        res.append(Case("parse %s 100 R %s" % (cfg, hx(d.replace("\n", "\r"))), "cr", {"g": g, "role": "cr", "src": hx(d)}, compare=cmp_))
        if not d.endswith("\n"):
            res.append(Case("parse %s 100 R %s" % (cfg, hx(d + "\n")), "final", {"g": g, "role": "final", "src": hx(d)}, compare=cmp_))
    return res


_base = {}


def oracle(case, io, mo):
    if not io.startswith("ok"):
        return "did not return normally: " + io[:120]
    f = fields(io)
    p = case.params
    if p["role"] == "base":
        _base[p["g"]] = f["html"]
        return None
    b = _base.get(p["g"])
    if b is None:
        return None
    if f["html"] != b:
        what = {"crlf": "every LF is replaced by CRLF", "cr": "every LF is replaced by CR", "final": "a final line ending is appended"}[p["role"]]
        return "HTML changes when " + what
    return None


def nontrivial(case, io):
    return b"\n" in unhx(case.params["src"])


def known_match(k, case, io, msg):
    return False
