# C17 -- URL normalisation yields clean, stable percent-encoding
import sys, os
sys.path.insert(0, os.path.dirname(os.path.dirname(os.path.abspath(__file__))))
from lib import hx, unhx

COQ_TARGETS = ["props/C17.vo"]
RELEASE_TOO = True
RULE = ("enc/norm cases: byte strings built from chunks (safe chars, unsafe ASCII, controls, multi-byte UTF-8, "
        "'%' followed by 0/1/2 hex or non-hex characters, '%' forced into the last two positions) x safe sets "
        "(default, default+'%', empty, alnum only, random) x keep-escaped on/off; follow-up cases re-encode the "
        "implementation's own output (idempotence). Non-trivial = input contains '%' or a byte that must be encoded; "
        "distinct = distinct command lines.")
DEFAULT_SAFE = b";/?:@&=+$,-_.!~*'()#"
HEXD = b"0123456789abcdefABCDEF"


def gen_src(rng):
    n = rng.choice([0, 1, 2, 3, 5, 8, 13, 30])
    out = bytearray()
    for _ in range(n):
        k = rng.random()
        if k < 0.20:
            out += rng.choice([b"a", b"Z", b"0", b"/", b"?", b"#", b"-", b"~", b";", b"@"])
        elif k < 0.25:
            out.append(rng.randrange(128))
        elif k < 0.40:
            out += rng.choice([b" ", b"\"", b"<", b"[", b"]", b"^", b"`", b"\\", b"{", b"|", b"\x00", b"\x7f", b"\n", b"\t"])
        elif k < 0.55:
            out += rng.choice(["é", "φ", "ο", "€", "𝄞", "\u0080", "￿", "ß"]).encode()
        else:
            out += b"%"
            m = rng.choice([0, 1, 2, 2, 2, 3])
            for _ in range(m):
                k2 = rng.random()
                if k2 < 0.6:
                    out.append(rng.choice(HEXD))
                elif k2 < 0.8:
                    out.append(rng.randrange(128))          # any ASCII byte, controls included
                elif k2 < 0.9:
                    # neighbours of the hex ranges and their case/bit-folded images
                    out.append(rng.choice(b"/:@G`g\x10\x19\x1a\x0f\x21\x26\x27\x41\x46\x61\x66"))
                else:
                    out += rng.choice([b"g", b"G", b"%", b" ", b"z", b"/", "é".encode()])
    # force '%' into the last positions
    k = rng.random()
    if k < 0.15:
        out += b"%"
    elif k < 0.30:
        out += b"%" + bytes([rng.choice(HEXD)])
    elif k < 0.40:
        out += b"%" + bytes([rng.choice(HEXD), rng.choice(HEXD)])
    elif k < 0.45:
        out += b"%%"
    return bytes(out)


def cases(rng, tier, Case):
    n = 1500 if tier == "quick" else 60000
    res = []
    fixed = [b"", b"%", b"%%", b"%a", b"%4", b"%41", b"%zz", b"a%", b"a%4", b"a%41", b"%%41", b"%25", b"%2", b"%2G", b"%G2",
             "φου".encode(), b"\x00\x7f", "\u0080".encode(), b"my url", b"%20%2G", b"?#", b"[]^", b"a%%", b"%%%"]
    safes = [(1, DEFAULT_SAFE), (1, DEFAULT_SAFE + b"%"), (0, b""), (1, b""), (0, b"%"), (0, b"abcdef0123456789"), (1, b"\x00 \x7f<>\"")]
    for src in fixed:
        for keep in (0, 1):
            for base, safe in safes:
                res.append(Case("enc %d %d %s %s" % (keep, base, hx(safe), hx(src)), "fixed",
                                {"keep": keep, "base": base, "safe": hx(safe), "src": hx(src)}))
        res.append(Case("norm %s" % hx(src), "norm", {"keep": 1, "base": 1, "safe": hx(DEFAULT_SAFE), "src": hx(src)}))
    # destinations behind a scheme / media-type prefix: normalize_link treats no prefix specially (seed C17-8)
    for pre in (b"data:image/png;base64,", b"data:image/jpeg;", b"DATA:image/gif;x,", b"data:image/webp;", b"data:text/html,", b"http://x.y/", b"mailto:", b"javascript:", b"//", b"#"):
        for tail in [b"iVBOR w0KGgo=", b"50%", "é b%zz".encode(), b"%41%", b"a b\tc", b"\x00\x7f", "\u00a0%2".encode()] + [gen_src(rng) for _ in range(6 if tier == "quick" else 60)]:
            src = pre + tail
            res.append(Case("norm %s" % hx(src), "norm", {"keep": 1, "base": 1, "safe": hx(DEFAULT_SAFE), "src": hx(src)}))
    for _ in range(n):
        src = gen_src(rng)
        keep = rng.choice([0, 1, 1])
        if rng.random() < 0.6:
            base, safe = rng.choice(safes)
        else:
            base = rng.choice([0, 1])
            safe = bytes(rng.sample(range(128), rng.choice([0, 3, 10, 40])))
        if rng.random() < 0.15:
            res.append(Case("norm %s" % hx(src), "norm", {"keep": 1, "base": 1, "safe": hx(DEFAULT_SAFE), "src": hx(src)}))
        else:
            res.append(Case("enc %d %d %s %s" % (keep, base, hx(safe), hx(src)), "gen",
                            {"keep": keep, "base": base, "safe": hx(safe), "src": hx(src)}))
    # safe sets built with AsciiSet::remove as well (of members and of non-members); the model and the oracle
    # are given the resulting set by its members
    ALNUM = b"abcdefghijklmnopqrstuvwxyzABCDEFGHIJKLMNOPQRSTUVWXYZ0123456789"
    for _ in range(n // 5):
        src = gen_src(rng)
        keep = rng.choice([0, 1])
        base = rng.choice([0, 1])
        adds = bytes(rng.sample(range(128), rng.choice([0, 2, 6, 20])))
        pool = list(set(adds) | (set(ALNUM) if base else set())) or [37]
        rem = bytes([rng.choice(pool) if rng.random() < 0.4 else rng.randrange(128) for _ in range(rng.choice([1, 1, 2, 4]))] + ([37] if rng.random() < 0.3 else []))
        if rng.random() < 0.3:
            rem = rem + rem[:1]           # the same byte removed twice
        eff = bytes(sorted((set(adds) | (set(ALNUM) if base else set())) - set(rem)))
        res.append(Case("enc %d %d %s %s %s" % (keep, base, hx(adds), hx(src), hx(rem)), "removed",
                        {"keep": keep, "base": 0, "safe": hx(eff), "src": hx(src), "_model_line": "enc %d 0 %s %s" % (keep, hx(eff), hx(src))}))
    # different safe sets used one after the other in the same process (any per-set cache must be keyed by the whole set):
    # sets that differ only by characters 64 code points apart, or by one member
    for a, b in [(59, 123), (61, 125), (62, 126), (95, 31), (33, 97), (35, 99), (47, 111), (58, 122), (63, 127), (0, 64)]:
        src = bytes([a, b, 37, a, 32, b]) + gen_src(rng)[:12].decode("utf-8", "ignore").encode()
        for keep in (0, 1):
            for first, second in ((a, b), (b, a)):
                for base, extra in ((0, b""), (1, b"-_.!~*'();/?:@&=+$,#")):
                    s1 = bytes(sorted(set(extra) - {a, b} | {first}))
                    s2 = bytes(sorted(set(extra) - {a, b} | {second}))
                    for sset in (s1, s2, s1):
                        res.append(Case("enc %d %d %s %s" % (keep, base, hx(sset), hx(src)), "setpair",
                                        {"keep": keep, "base": base, "safe": hx(sset), "src": hx(src)}))
    return res


def safe_set(params):
    s = set(unhx(params["safe"]))
    if params["base"]:
        s |= set(b"abcdefghijklmnopqrstuvwxyzABCDEFGHIJKLMNOPQRSTUVWXYZ0123456789")
    return {b for b in s if b < 128}


def pct_decode(b):
    out = bytearray()
    i = 0
    while i < len(b):
        if b[i] == 37 and i + 2 < len(b) and b[i + 1] in HEXD and b[i + 2] in HEXD:
            out.append(int(b[i + 1:i + 3], 16))
            i += 3
        else:
            out.append(b[i])
            i += 1
    return bytes(out)


def grammar_ok(out, safe):
    i = 0
    while i < len(out):
        c = out[i]
        if c < 128 and c in safe:
            i += 1
        elif c == 37 and i + 2 < len(out) + 0 and out[i + 1] in HEXD and out[i + 2] in HEXD:
            i += 3
        elif c == 37 and i + 2 == len(out) - 0 and False:
            return False
        else:
            return False
    return True


def oracle(case, io, mo):
    if not io.startswith("ok"):
        return "implementation did not return normally: " + io[:200]
    out = unhx(io[3:].strip())
    p = case.params
    src = unhx(p["src"])
    safe = safe_set(p)
    if any(b >= 128 for b in out):
        return "output is not pure ASCII"
    # grammar (safe byte | %XX)*, decided by reachability (ambiguous when '%' itself is safe)
    reach = {0}
    for i in range(len(out)):
        if i in reach:
            if out[i] in safe:
                reach.add(i + 1)
            if out[i] == 37 and i + 3 <= len(out) and out[i + 1] in HEXD and out[i + 2] in HEXD:
                reach.add(i + 3)
    if len(out) not in reach:
        return "output violates the grammar (safe | %XX)*"
    if p["keep"]:
        if pct_decode(out) != pct_decode(src):
            return "keep-escaped: percent-decoding of output differs from decoding of input"
        if "parent_out" in p and p["parent_out"] != hx(out):
            return "keep-escaped: not idempotent"
    else:
        if 37 not in safe and pct_decode(out) != src:
            return "percent-decoding the result does not return the original bytes"
    return None


def followup(case, io, Case):
    p = case.params
    if p["keep"] and io.startswith("ok") and "parent_out" not in p and case.line.startswith("enc"):
        out = io[3:].strip() or "-"
        q = dict(p)
        q["src"] = out
        q["parent_out"] = out
        return [Case("enc %d %d %s %s" % (p["keep"], p["base"], p["safe"], out), "idem", q)]
    return []


def project(o):
    return o


def nontrivial(case, io):
    src = unhx(case.params["src"])
    safe = safe_set(case.params)
    return any(b == 37 or b not in safe for b in src)


def known_match(k, case, io, msg):
    return False


def shrink(case, hb, drv, Case, lib):
    from check import shrink_bytes
    p = case.params

    def fails(b):
        q = dict(p)
        q["src"] = hx(b)
        q.pop("parent_out", None)
        line = ("norm %s" % hx(b)) if case.line.startswith("norm") else "enc %d %d %s %s" % (p["keep"], p["base"], p["safe"], hx(b))
        io = lib.run_proto(hb, [line])[0]
        c = Case(line, "shrink", q)
        if oracle(c, io, None) is not None:
            return True
        if q["keep"]:
            f = followup(c, io, Case)
            if f:
                io2 = lib.run_proto(hb, [f[0].line])[0]
                return oracle(f[0], io2, None) is not None
        return False
    small = shrink_bytes(unhx(p["src"]), fails)
    return {"src_hex": hx(small), "src": small.decode("utf-8", "replace"), "keep": p["keep"], "safe": p["safe"], "base": p["base"]}
