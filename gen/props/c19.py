# C19 -- rendering is pure and the serializer is faithful to renderer events
import sys, os
sys.path.insert(0, os.path.dirname(os.path.dirname(os.path.abspath(__file__))))
from lib import hx, unhx
import mdgen, corpus
from parsecommon import project, fields

COQ_TARGETS = ["props/C19.vo"]
RULE = ("parse cases (all plugin sets, two fence language prefixes interleaved in one process) returning HTML, XHTML, the event "
        "sequence seen by an independent recording Renderer, and a purity flag (render twice, tree dump before/after); documents: "
        "generated, spec inputs, NUL in text / raw HTML / attribute values / info strings / alt, outputs above 16 KiB with breaks "
        "near chunk boundaries, consecutive and leading line breaks; oracle: an independent Python serializer applied to the "
        "implementation's events reproduces both strings, XHTML = HTML with ' /' inserted in self-close chunks only, purity flag "
        "set; the model's events must equal the implementation's (correspondence). Non-trivial = event list has a line break, a "
        "self-closing tag or a NUL; distinct = distinct cases.")


def esc(b):
    return b.replace(b"&", b"&amp;").replace(b"<", b"&lt;").replace(b">", b"&gt;").replace(b'"', b"&quot;")


def serialize(ev, xhtml):
    out = bytearray()

    def attrs(a):
        r = b""
        if a:
            for kv in a.split(","):
                k, v = kv.split("=", 1)
                r += b" " + esc(k.encode()) + b'="' + esc(unhx(v)) + b'"'
        return r
    for e in ev:
        parts = e.split(":")
        if parts[0] == "o":
            out += b"<" + parts[1].encode() + attrs(parts[2]) + b">"
        elif parts[0] == "c":
            out += b"</" + parts[1].encode() + b">"
        elif parts[0] == "s":
            out += b"<" + parts[1].encode() + attrs(parts[2]) + (b" /" if xhtml else b"") + b">"
        elif parts[0] == "n":
            if len(out) > 0 and out[-1] != 10:
                out += b"\n"
        elif parts[0] == "t":
            out += esc(unhx(parts[1]))
        elif parts[0] == "r":
            out += unhx(parts[1])
    return bytes(out).replace(b"\0", "�".encode())


SPECIAL = ["\0", "a\0b", "<b>\0</b>", "<div>\n\0\n</div>", "![a\0b](u)", "[a](u \"t\0\")", "```i\0\nc\n```", "    \0<x>", "`\0`", "\n\na", "a\n\n\n\nb", "- a\n\n\n- b", "> \n> a",
           "a  \nb\\\nc", "***\n---\n___", "<br>\n<hr/>", "![i](u)\n![j](v 't')", "1. a\n\n   b\n", "#\n##\n###",
           # many childless containers before real content (a renderer that counts nesting must count back down)
           "#\n" * 1100 + "\ntail *x*", "[](/u)" * 1050 + " tail", "-\n" * 1030 + "\nafter", ">\n\n" * 1010 + "end", "![](/u) " * 1040 + "z", "<br>" * 1100 + "\n\nend"]


def big(rng, size):
    out = []
    total = 0
    while total < size:
        w = rng.choice(["lorem ipsum dolor sit amet", "x" * rng.choice([1, 7, 100, 1000]), "*a* `b`", "a  ", "é" * 30])
        out.append(w)
        total += len(w) + 1
    return "\n".join(out)


def cases(rng, tier, Case):
    res = []
    n = 1200 if tier == "quick" else 60000
    docs = list(SPECIAL)
    for i, d in enumerate(corpus.spec_inputs()):
        if tier == "quick" and i % 4:
            continue
        docs.append(d)
    for _ in range(n):
        docs.append(mdgen.clean_utf8(mdgen.gen_doc(rng)))
    for k in range(4 if tier == "quick" else 40):
        docs.append(big(rng, rng.choice([16300, 16384, 17000, 33000])))
        docs.append("x" * (16384 - 3 - rng.choice([0, 1, 2, 3, 4])) + "\nb\n\nc " * 3)
    for d in docs:
        cfg = rng.choice(["CsW", "CsWS", "CsW", mdgen.gen_cfg(rng)])
        if rng.random() < 0.3:
            cfg = cfg.replace("f", "F")
        res.append(Case("parse %s 100 RE %s" % (cfg, hx(d)), "gen", {"src": hx(d), "cfg": cfg}, compare=len(d) < 6000 and d.count("\n") < 300 and d.count("](") < 300))
    # trees deeper than 256 levels (seed C19-7: a depth guard in the serializer's descent) and raw text that looks like
    # the end of a void element (seed C19-8: HTML derived from XHTML by text replacement)
    for k in (130, 150, 300):
        for d in ("*a _b " * k + "c" + " b_ a*" * k, "- " * 99 + "*a _b " * (k // 2) + "c" + " b_ a*" * (k // 2), "> " * 90 + "**a ~~b " * (k // 2) + "![i](u) <br />" + " b~~ a**" * (k // 2)):
            res.append(Case("parse CsW 100 RE %s" % hx(d), "deep", {"src": hx(d), "cfg": "CsW"}, compare=False))
    for d in ("<br />", "a <br /> b", "<img src=\"a.png\" />\n", "<div>\n<hr />\n</div>", "text \" />\" end", "`<br />`", "    <br />", "[l](u \"t />\")", "![a />](u)",
              "<a href=\"x\" />\n\n***\n\n<input />", "&lt;br /&gt;", "```\n<br />\n```", "<http://x.y/ />", "a  \n<br />  \nb"):
        for cfg in ("CsW", "WCs", "CsWS", "Cs", "nebmliatcfqhurHLpx"):
            res.append(Case("parse %s 100 RE %s" % (cfg, hx(d)), "voidlike", {"src": hx(d), "cfg": cfg}))
    return res


def oracle(case, io, mo):
    if not io.startswith("ok"):
        return "did not return normally: " + io[:120]
    f = fields(io)
    ev = f["ev"].split("|") if f.get("ev") else []
    html, xhtml = unhx(f["html"]), unhx(f["xhtml"])
    if f.get("pure") != "1":
        return "rendering modified the tree or is not repeatable"
    if serialize(ev, False) != html:
        return "HTML output is not what the public renderer events serialize to"
    if serialize(ev, True) != xhtml:
        return "XHTML output is not what the public renderer events serialize to"
    return None


def nontrivial(case, io):
    ev = fields(io).get("ev", "")
    return "|n" in ev or "s:" in ev or "00" in ev


def known_match(k, case, io, msg):
    return False
