# C07 -- parsing is deterministic and leaves no state behind in the parser
import sys, os
sys.path.insert(0, os.path.dirname(os.path.dirname(os.path.abspath(__file__))))
from lib import hx, unhx
import mdgen
from parsecommon import project, fields

COQ_TARGETS = ["props/C07.vo"]
RULE = ("hist cases: one parser instance (random plugin subset/order, nesting limit) parses 2..12 documents in sequence (documents "
        "chosen to leak if anything does: reference definitions then uses, backtick runs, emphasis runs, letter-marker custom rule, "
        "same document twice); every document is also parsed by a fresh instance in a separate command; oracle: the k-th result of "
        "the history equals the fresh result (tree, HTML, XHTML). Non-trivial = history of >= 2 documents where one defines a "
        "reference or uses backticks; distinct = distinct histories.")
LEAKY = ["~~x~~ H~2~O ~y~ ~~~z~~~", "H~2~O", "~~s~~", "[r]: /leak\n", "[foo]: /leak2 'T'\n\n[foo]", "[r]", "[foo][]", "![r]", "``` `` ` x", "`a ``b ```c", "*a **b", "_x __y", "[r]: /other", "[R]", "[ſ]: /s\n", "[SS]",
         "xx y xx", "a `b` c `` d", "> [r]: /q\n", "- [r]: /l\n\n[r]", "[r]\n\n[r]: /late",
         # destinations that differ only in the spelling of the scheme / host (any memo of normalised links must not leak)
         "[a](HTTP://example.com/X) <HTTP://EXAMPLE.com/y>", "[a](http://example.com/X) <http://EXAMPLE.com/y>", "[r]: HTTPS://q.r/Z\n\n[r]", "[r]: https://q.r/Z\n\n[r]",
         "![i](MAILTO:a@b.c) [j](Data:image/png;base64,AA)", "![i](mailto:a@b.c) [j](data:image/png;base64,AA)", "[k](/P%41TH) [l](/p%41th)", "[k](/PaTH) [l](/path)"]


STOPS = "\n!#$%&*+-:<=>@[\\]^_`{}~"
COLLIDERS = ["".join(chr(0x100 + ord(c)) for c in STOPS), "".join(chr(0x4E00 + ord(c)) for c in STOPS), "".join(chr(0x2000 + ord(c)) for c in STOPS),
             "".join(chr(0x10000 + ord(c)) for c in STOPS)]
BIG = ["[" + "a b " * 600 + "](u)", "[" + "*a* `b` " * 300 + "]", "`" * 3 + " x" * 2000, "> " * 50 + "a", "[x]: /u\n\n" + "[x] " * 700,
       "*a " * 700, "[" * 90 + "a" + "]" * 90, "&amp;" * 600 + "\\*" * 600,
       # very long multi-word labels next to a definition (seed C07-8: a label-length bail-out leaving a scratch buffer dirty)
       "[q]: /u\n\n[" + "a b " * 300 + "]", "[q]: /u\n\n[t][" + "a  b\t" * 250 + "]", "[" + "w " * 600 + "]: /long\n\n[q]: /u\n\n[q][" + "x y " * 260 + "]",
       "[q]: /u\n\n![" + "i  j " * 210 + "][]"]
PROBE_DEF = "[foo]: /leak2 'T'\n[Bar  baz]: /b\n\n[foo] [Foo][] [t][foo] ![bar baz] [r]"
PROBE = "*a* _b_ `c` [d](e) ![f](g) <http://h.i> &amp; \\* ~~j~~ [x] [r]\n\n- k\n\n> l\n\n# m !n #o $p %q +r -s :t =u >v @w ^x {y}z"


def cases(rng, tier, Case):
    res = []
    n = 250 if tier == "quick" else 8000
    # a failed look-up in one document must not be remembered for the next
    for lab in ("x", "zz", "Foo Bar", "r"):
        for other in ("[a]: /u\n\n", "", "[%s2]: /v\n\n" % lab):
            docs = [other + "[%s] [%s][] [t][%s] ![%s]" % (lab, lab, lab, lab), "[%s]: /axis 'T'\n\n[%s] [%s][] [t][%s] ![%s]" % (lab, lab, lab, lab, lab),
                    "[%s]" % lab, "> [%s]: /q\n\n[%s]" % (lab, lab)]
            for cfg in ("CsW", "Cs"):
                script = "+%s;" % cfg + ";".join("P" + hx(d) for d in docs)
                res.append(Case("hist 100 TR %s" % script, "history", {"cfg": cfg, "nest": 100, "docs": [hx(d) for d in docs]}))
    for first in COLLIDERS + BIG:
        for cfg in ("CsW", "CsW34", "nebmliatp"):
            docs = [first, PROBE, first + "\n\n" + PROBE, PROBE, first, PROBE_DEF, first, "[foo]: /leak2 'T'\n\n[foo]"]
            script = "+%s;" % cfg + ";".join("P" + hx(d) for d in docs)
            res.append(Case("hist 100 TR %s" % script, "history", {"cfg": cfg, "nest": 100, "docs": [hx(d) for d in docs]},
                            compare=first in COLLIDERS))
    # a parser that is reconfigured after it has parsed: same result as a fresh parser given the same add/remove calls
    RECONF = ["+z", "+z", "+s", "+3", "+4", "+8", "+x", "+S", "-m", "-M", "-a", "-x", "-l", "-E", "-3", "-b", "-s", "+1", "-H", "-p;+p", "+m", "-t", "-Z", "-Z", "+g", "+G", "-1", "-2"]
    for _ in range(n):
        cfg = rng.choice(["C", "C3", "C34", "CW3", "C8", "nebp3", "CgG", "gCG3", "Cg", mdgen.gen_cfg(rng) + "3"])
        steps = ["+" + cfg]
        conf = ["+" + cfg]
        for _k in range(rng.choice([1, 2, 3])):
            for _j in range(rng.choice([1, 2])):
                steps.append("P" + hx(rng.choice(LEAKY + [PROBE])))
            r_ = rng.choice(RECONF)
            steps.append(r_)
            conf.append(r_)
        last = hx(PROBE + "\n\nxx ~~s~~ % p % <b>q</b> " + rng.choice(LEAKY) + "\n\n@@@\n\n- i\n@@@\n")
        res.append(Case("hist 100 TR %s" % ";".join(steps + ["P" + last]), "reconf", {"fresh": "hist 100 TR %s" % ";".join(conf + ["P" + last])}))
    for _ in range(n):
        cfg = mdgen.gen_cfg(rng) + rng.choice(["", "3", "34"])
        nest = rng.choice([100, 100, 3])
        k = rng.choice([2, 3, 5, 8, 12])
        docs = [rng.choice(LEAKY) if rng.random() < 0.5 else mdgen.clean_utf8(mdgen.gen_doc(rng)) for _ in range(k)]
        if rng.random() < 0.3:
            docs.append(docs[0])
        script = "+%s;" % cfg + ";".join("P" + hx(d) for d in docs)
        res.append(Case("hist %d TR %s" % (nest, script), "history", {"cfg": cfg, "nest": nest, "docs": [hx(d) for d in docs]}))
    return res


def followup(case, io, Case):
    if case.tag == "reconf":
        return [Case(case.params["fresh"], "reconf-fresh", {"parent": case.line, "k": -1, "cfg": "-"}, compare=case.compare)]
    if case.tag != "history":
        return []
    p = case.params
    out = []
    for i, d in enumerate(p["docs"]):
        # the fresh parsers run in another process; a small neutral document goes before each of them so that state kept
        # outside the parser object (statics, thread-locals) is not the same as in the history (seed C07-8)
        out.append(Case("parse C 100 TR %s" % NEUTRAL, "neutral", {"neutral": 1}))
        out.append(Case("parse %s %d TR %s" % (p["cfg"], p["nest"], d), "fresh", {"parent": case.line, "k": i, "cfg": p["cfg"]}, compare=case.compare))
    return out


_hist = {}
NEUTRAL = hx("[n]: /n 'N'\n\n[n] `c` *e* [n][] <http://n.n>\n\n- i\n")


def split_hist(io):
    # "ok P[...];P[...]" -> list of reports
    body = io[3:]
    out = []
    for part in body.split(";P["):
        part = part[2:] if part.startswith("P[") else part
        out.append(part[:-1] if part.endswith("]") else part)
    return out


def oracle(case, io, mo):
    if not io.startswith("ok"):
        return "did not return normally: " + io[:120]
    if case.tag == "neutral":
        return None
    if case.tag in ("history", "reconf"):
        _hist[case.line] = split_hist(io)
        return None
    reps = _hist.get(case.params["parent"])
    if reps is None:
        return None
    k = case.params["k"]
    if k == -1:
        mine = split_hist(io)
        if project(reps[-1]) != project(mine[-1]):
            return "a parser reconfigured after parsing gives a different result from a fresh parser given the same add/remove calls"
        return None
    if k >= len(reps):
        return "history produced fewer results than documents"
    if project(reps[k]) != project(io):
        return "result #%d on the reused parser differs from the result of a fresh parser" % (k + 1)
    return None


def nontrivial(case, io):
    return case.tag in ("history", "reconf")


def known_match(k, case, io, msg):
    return False
