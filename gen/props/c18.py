# C18 -- image alt text is the full plain-text content of the description
import sys, os, re
sys.path.insert(0, os.path.dirname(os.path.dirname(os.path.abspath(__file__))))
from lib import hx, unhx
import mdgen
from parsecommon import project, fields, read_html, strip_tags_text

COQ_TARGETS = ["props/C18.vo"]
RULE = ("image descriptions DESC built from text, escapes, named/numeric references, soft and hard breaks (incl. consecutive "
        "backslash breaks), emphasis of several depths (up to 300 nested pairs in the thorough tier), code spans, links, nested "
        "images, unmatched delimiters that stay literal; two parses each: '![DESC](x)' and 'DESC' as a paragraph; oracle: the alt "
        "attribute equals the tag-stripped text of the paragraph rendering (nested images contribute their own alt). "
        "Non-trivial = DESC contains an escape, reference, break or nested construct; distinct = distinct DESC.")
ATOMS = ["a", "b c", "é", "\\*", "\\\\", "\\[", "\\]", "&amp;", "&lt;", "&#65;", "&#x263A;", "&quot;", "&#0;", "*e*", "**s**", "_u_", "`c`", "`` `x` ``", "~~d~~", "[l](/u)", "[l2](/u 't')",
         "![i](/v)", "![*j*](/w)", "2 * 3", "snake_case_name", "a*b", "**", "_", "~", "<http://x.y>", "!", "x &amp; y", "&nbsp;", "\\&amp;", "&copy;", "a\0b", "\0", "\0\0 z",
         # raw inline HTML (shown as markup with the html plugin, as text without): never part of the alt text as markup (seed C18-9)
         "<b>bold</b>", "<!-- c -->", "<br/>", "<i class=\"k\">x</i>", "about ~5 km", "1 _ 2"]
BREAKS = ["\n", "  \n", "\\\n", "\\\n\\\n", "   \n", "\\\n  \n"]


def desc(rng, depth=0):
    n = rng.choice([1, 2, 3, 4, 6])
    parts = []
    for _ in range(n):
        k = rng.random()
        if k < 0.7 or depth > 2:
            parts.append(rng.choice(ATOMS))
        elif k < 0.85:
            m = rng.choice(["*", "**", "_", "~~"])
            parts.append(m + desc(rng, depth + 1).strip() + m)
        else:
            parts.append(rng.choice(BREAKS).join([rng.choice(ATOMS), rng.choice(ATOMS)]))
    return " ".join(parts)


def deep(n):
    return "**" * n + "deep \\* &amp; text" + "**" * n


def cases(rng, tier, Case):
    res = []
    n = 900 if tier == "quick" else 40000
    descs = ["a <b>bold</b> c", "x <!-- c --> y", "2 * 3 = 6 <br/>", "about ~5 km", "nul \0 in alt", "a \\* &amp; b\nc", "2 * 3 = 6", "snake_case", "a\\\n\\\nb", "before " + deep(40) + " after", "x ![y ![z](1)](2) w", "*a **b** c*", "`a`*b*", "~~[]~~~~"]
    if tier != "quick":
        descs += ["before " + deep(300) + " after", "*a " * 200 + "b" + " a*" * 200]
    else:
        descs += ["before " + deep(140) + " after", "before " + deep(300) + " after"]
    for _ in range(n):
        descs.append(desc(rng))
    for d in descs:
        d = mdgen.clean_utf8(d).strip()
        if not d or re.search(r"\n[ \t]*\n", d):
            continue
        # plugin sets: with the html plugin; the image rule registered BEFORE the first emphasis-like plugin (the clean-up
        # pass that turns unmatched delimiters back into text is then registered after it -- seed C18-10)
        cfg = rng.choice(["Cs", "Cs", "CsW", "CsW", "nebliatcfqhurHLpms", "pims", "nebliatcfqhurHLpsW", "ipnem", "lipsm"])
        res.append(Case("parse %s 100 TR %s" % (cfg, hx("![" + d + "](x)")), "image", {"src": hx(d)}, compare=len(d) < 700))
        res.append(Case("parse %s 100 TR %s" % (cfg, hx("> - ![" + d.replace("\n", " ") + "][r]\n\n[r]: /y 't'")), "image-ref", {"src": hx(d)}))
    # a line break as the last (or first) thing of the description, right before the closing bracket (seed C18-11)
    for d in ("foo\n", "foo  \n", "foo\\\n", "\nfoo", "a\nb\n", "*e*\n", "foo\n ", "`c`  \n", "a &amp;\n"):
        for cfg in ("Cs", "CsW", "nebliatcfqhurHLp"):
            res.append(Case("parse %s 100 TR %s" % (cfg, hx("![" + d + "](x)")), "image", {"src": hx(d)}))
            res.append(Case("parse %s 100 TR %s" % (cfg, hx("x ![" + d + "](x) [" + d + "](y)")), "image", {"src": hx(d)}))
    # what stands BEFORE the image in the paragraph must not change how its description is read (seed C18-7: delimiter
    # bookkeeping of the paragraph leaking into the description): descriptions with a known display text behind prefixes
    # full of unmatched delimiters
    KNOWN = [("*d*", "d"), ("a **b** _c_", "a b c"), ("x __y__ _z_", "x y z"), ("`c` *e*", "c e"), ("~~s~~ t", "s t"), ("**a *b* c**", "a b c"), ("_u_ [l](v)", "u l")]
    PREFIXES = ["", "a* b* c* ", "a_ b_ c_ d_ ", "a** b** ", "x~~ y~~ z~~ ", "*a **b ", "_a __b ", "` `` ", "[ [ ", "\\* *x ", "a* b_ c** d__ e~~ ", "*a* b* c* ",
                "**a b** c** d** ", "![p*](q) r* s* ", "[l*](u) m* n* "]
    for dsc, want in KNOWN:
        for pre in PREFIXES:
            if "`" in pre and "`" in dsc:
                continue
            for suf in ("", " z* w*"):
                d = pre + "![" + dsc + "](x)" + suf
                res.append(Case("parse Cs 100 TR %s" % hx(d), "prefixed", {"src": hx(dsc), "want_alt": want}))
    return res


IMG_RE = re.compile(rb"<img [^>]*?alt=\"([^\"]*)\"[^>]*>")


def displayed(n):
    """the characters a node displays as inline text, from the tree alone"""
    from parsecommon import text_arg
    if n.kind in ("Text", "TextSpecial"):
        return text_arg(n)
    if n.kind in ("Softbreak", "Hardbreak"):
        return b"\n"
    return b"".join(displayed(c) for c in n.children)


def oracle(case, io, mo):
    if not io.startswith("ok"):
        return "did not return normally: " + io[:120]
    from parsecommon import parse_tree, unescape_strict
    import sys as _s
    _s.setrecursionlimit(20000)
    f = fields(io)
    html = unhx(f["html"])
    if "want_alt" in case.params:
        got = [unescape_strict(m.group(1)) for m in IMG_RE.finditer(html)]
        if not got or got[-1] != case.params["want_alt"].encode():
            return "the description %r displays %r but the alt text is %r" % (unhx(case.params["src"]), case.params["want_alt"], got[-1:] )
    nodes = parse_tree(f["tree"])
    tops = [n for n in nodes if n.kind == "Image" and not any(a.kind == "Image" for a in ancestors(n))]
    alts = [unescape_strict(m.group(1)) for m in IMG_RE.finditer(html)]
    if len(tops) != len(alts):
        return "number of <img> elements differs from the number of outermost Image nodes"
    for n, alt in zip(tops, alts):
        want = b"".join(displayed(c) for c in n.children).replace(b"\0", "\ufffd".encode())
        if alt != want:
            return "alt text %r differs from the text %r that the description displays" % ((alt or b"")[:80], want[:80])
    return None


def ancestors(n):
    out = []
    while n.parent is not None:
        n = n.parent
        out.append(n)
    return out


def nontrivial(case, io):
    s = unhx(case.params["src"])
    return any(x in s for x in (b"\\", b"&", b"\n", b"*", b"[", b"`"))


def known_match(k, case, io, msg):
    return False
