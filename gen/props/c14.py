# C14 -- the returned tree is well-formed
import sys, os
sys.path.insert(0, os.path.dirname(os.path.dirname(os.path.abspath(__file__))))
from lib import hx, unhx
import mdgen, corpus
from parsecommon import project, fields, parse_tree, text_arg

COQ_TARGETS = ["props/C14.vo"]
RULE = ("parse cases with the paragraph rule present under random plugin subsets/orders: generated documents, spec inputs and "
        "mutations, delimiter-heavy soup (unmatched emphasis runs next to text, empty emphasis, markers at paragraph edges, "
        "tight/loose lists, nested containers); oracle on the dumped tree: no InlineRoot/EmphMarker/Empty/unknown kinds, Root only "
        "at depth 0, ListItem iff parent is a list, lists contain only items, inline kinds only under leaf blocks / items / inline "
        "containers, leaf kinds childless, no empty Text, no adjacent Text siblings. Non-trivial = tree has >= 4 nodes; distinct = distinct cases.")
BLOCK_CONTAINERS = {"Root", "Blockquote", "ListItem"}
LISTS = {"BulletList", "OrderedList"}
LEAF_BLOCKS_INLINE = {"Paragraph", "ATXHeading", "SetextHeader"}
LEAF_BLOCKS = {"ThematicBreak", "CodeBlock", "CodeFence", "HtmlBlock", "CustomBlock", "CustomCore"}
INLINE_CONTAINERS = {"Em", "Strong", "Strikethrough", "Link", "Image", "CodeInline", "Autolink", "CustomPair"}
INLINE_LEAVES = {"Text", "TextSpecial", "Softbreak", "Hardbreak", "HtmlInline", "CustomInline"}
FINAL = BLOCK_CONTAINERS | LISTS | LEAF_BLOCKS_INLINE | LEAF_BLOCKS | INLINE_CONTAINERS | INLINE_LEAVES
EDGE = ["*", "**a", "a**", "* a *", "*a", "a*", "_", "__", "*_*", "**", "***", "a * b", "*a*b*", "~~", "~a~", "a~~b", "**a*", "*a**", "_a*", "*[a*](u)", "[*a](u)*", "- *a\n- b*",
        "- a\n\n- b", "- a\n- b\n\n  c", "1. a\n   - b\n   - c\n2. d", "> - a\n> - b", "- > a", "-\n-", "- \n\n  a", "*a*\n*b*", "a\n*\nb", "`*`*", "\\**a*", "&amp;*a*", "![*a*](u)*", "<http://a.b>*",
        # paragraph lines that look like block starts only to a look-ahead (or only to the real call), in tight items
        "- foo\n  ``` a`b", "- foo\n  ```a`", "1. foo\n   ~~~ x", "- foo\n  # h", "- foo\n  1) x", "- foo\n  2) x", "- foo\n  ***", "- foo\n  <div>", "- foo\n  <x-y>", "- a\n  > b",
        # a backslash as the very last character of inline content, after text (seed C14-9)
        "foo\\", "# foo\\", "- foo\\\n- b\\", "foo\\\n\nbar\\", "> a\\", "a\\\n===", "foo \\", "foo\\\\", "*a*\\", "a&amp;\\", "[a\\](u)", "a\\\nb\\",
        "- foo\n      code", "- foo\n  [r]: /u", "- foo\n  ===", "- foo\n  - ", "- foo\n  @@@"]


def cases(rng, tier, Case):
    res = []
    n = 2500 if tier == "quick" else 120000
    for d in EDGE:
        for cfg in ("CsW", "Cs", "mp", "msp", "nebliatcfqhurHLp", "nebliatcfqhurHLpxX1", mdgen.gen_cfg(rng, require="p")):
            res.append(Case("parse %s 100 T %s" % (cfg, hx(d)), "edge", {"cfg": cfg, "src": hx(d)}))
    # inline nesting that meets the nesting limit exactly, with an empty or blank innermost description, under plugin
    # sets without the emphasis rules (no clean-up pass) -- seed C14-8
    for nest in (1, 2, 3, 10, 100):
        for k in (nest - 1, nest, nest + 1):
            if k < 1:
                continue
            for d in ("![" * k + "](u)" * k, "[" * k + "](u)" * k, "[![" * (k // 2 + 1) + "](a)](b)" * (k // 2 + 1), "![" * k + " ](u)" * k,
                      "x ![" * k + "](u) y" * k, "%" * 1 + "![" * k + "](u)" * k + " %"):
                for cfg in ("nebliatcfqhurHLp", "lip", "eblip8", "CsW"):
                    res.append(Case("parse %s %d T %s" % (cfg, nest, hx(d)), "limit", {"cfg": cfg, "src": hx(d)}, compare=len(d) < 400))
    # emphasis nested deeper than any traversal limit one might assume (the nesting limit does not bound it), with an
    # unmatched delimiter in the innermost level: the clean-up pass must reach it (seed C14-10)
    for depth in (200, 255, 256, 257, 300) if tier == "quick" else (100, 200, 254, 255, 256, 257, 258, 300, 511, 512, 513, 700):
        for op, cl in (("*a ", " a*"), ("~~a ", " a~~"), ("_a ", " a_"), ("**a ", " a**")):
            for inner in ("_", "~", "*", "x _ y ~ z", "`"):
                if inner in op:
                    continue
                d = op * depth + inner + cl * depth
                res.append(Case("parse CsW 100 T %s" % hx(d), "deepemph", {"cfg": "CsW", "src": hx(d)}, compare=(depth == 257 and inner == "_")))
    for i, d in enumerate(corpus.spec_inputs()):
        if tier == "quick" and i % 4:
            continue
        cfg = mdgen.gen_cfg(rng, require="p")
        res.append(Case("parse %s 100 T %s" % (cfg, hx(d)), "spec", {"cfg": cfg, "src": hx(d)}))
    for _ in range(n):
        d = mdgen.clean_utf8(mdgen.gen_doc(rng))
        cfg = mdgen.gen_cfg(rng, require="p")
        nest = rng.choice([100, 100, 100, 2, 1])
        res.append(Case("parse %s %d T %s" % (cfg, nest, hx(d)), "gen", {"cfg": cfg, "src": hx(d)}))
    return res


def wf_tree(nodes):
    for n in nodes:
        k = n.kind
        if k not in FINAL:
            return "parser-internal or unknown node kind %s survives in the result" % k
        if (k == "Root") != (n.depth == 0):
            return "Root kind at depth %d / non-root at the top" % n.depth
        p = n.parent.kind if n.parent is not None else None
        if k == "ListItem" and p not in LISTS:
            return "ListItem under %s" % p
        if p in LISTS and k != "ListItem":
            return "%s directly under a list" % k
        is_inline = k in INLINE_CONTAINERS or k in INLINE_LEAVES
        if is_inline and p not in (LEAF_BLOCKS_INLINE | {"ListItem"} | INLINE_CONTAINERS):
            return "inline node %s under %s" % (k, p)
        if not is_inline and p is not None and p not in BLOCK_CONTAINERS | LISTS:
            return "block node %s under %s" % (k, p)
        if (k in INLINE_LEAVES or k in LEAF_BLOCKS) and n.children:
            return "leaf kind %s has children" % k
        if k == "Text" and text_arg(n) == b"":
            return "empty Text node"
        prev = None
        for c in n.children:
            if c.kind == "Text" and prev == "Text":
                return "two adjacent Text siblings under %s" % k
            prev = c.kind
    return None


def oracle(case, io, mo):
    if not io.startswith("ok"):
        return "did not return normally: " + io[:120]
    return wf_tree(parse_tree(fields(io)["tree"]))


def nontrivial(case, io):
    return fields(io).get("tree", "").count(";") >= 3


def known_match(k, case, io, msg):
    return False
