# C01 -- parsing and rendering never panic, abort or hang
import sys, os
sys.path.insert(0, os.path.dirname(os.path.dirname(os.path.abspath(__file__))))
from lib import hx, unhx
import mdgen, corpus
from parsecommon import project, fields

COQ_TARGETS = ["props/C01.vo"]
RELEASE_TOO = True
RELEASE_SAME = False
RULE = ("parse cases: structured documents (weighted CommonMark grammar, perturbed), fragment soup, the 652 spec inputs and "
        "their mutations, adversarial families (unbalanced delimiters, backtick runs after '[', deep nesting, '%'/'&' at the end, "
        "NUL, lone CR, tabs) x random subsets/orders of the 21 shipped plugins x nesting limits {0,1,2,3,10,100}; tree, HTML, XHTML "
        "and renderer events are requested so that walking and both serializers run. Non-trivial = some rule other than the text "
        "fallback produced a node; distinct = distinct (config, limit, document).")

NUMERIC = ["&#x%X;" % c for c in (0, 8, 9, 0xB, 0xE, 0x1F, 0x7F, 0x9F, 0xD7FF, 0xD800, 0xDBFF, 0xDC00, 0xDFFF, 0xE000, 0xFDCF, 0xFDD0, 0xFDEF, 0xFDF0, 0xFFFD, 0xFFFE, 0xFFFF,
                                      0x1FFFE, 0x1FFFF, 0x10FFFD, 0x10FFFE, 0x10FFFF, 0x110000, 0xFFFFFF)] + ["&#%d;" % c for c in (0, 55295, 55296, 57343, 57344, 64976, 65007, 65534, 65535, 1114111, 1114112, 9999999)]
FAMILIES = ["[x](/p%a)", "<http://example.com/50%2>", "[r]\n\n[r]: /u%f", "![i](<%e> \"t\")", "[x](%) [y](a%) [z](%4) [w](%%4)", " ".join(NUMERIC), "[a](/" + "".join(NUMERIC) + " \"" + "".join(NUMERIC) + "\")", "```" + "".join(NUMERIC[:12]) + "\nx", "[r]\n\n[r]: /" + "".join(NUMERIC[8:20]),
            "[*](/url)", "![_](/i.png)", "[~~ x]\n\n[~~ x]: /u", "[**](u) [__](u) ![*a](u)", "[" * 101 + "x  ", "[[[[a](/u)\t", "![" * 4 + "a  ", "[" * 4 + "x \t",
            "[`", "[``", "``[`]`", "[x``y`]`](u)", "`" * 5 + "[" + "`" * 3, "![" * 20, "[" * 40 + "a" + "](u)" * 40, ">" * 50, "- " * 40 + "a",
            "*a **b " * 30 + "c" + " b** a*" * 30, "&", "&#", "&#x", "&#1", "&a", "\\", "<", "<a", "<!--", "<?", "<![CDATA[", "```", "~~~\n", ">",
            "-", "1.", "1)", "#", "=", "\0", "\r", "\r\n", "\t", "\t\t-\t\ta", " \t \t", "[a]:", "[a]: <", "[a]: x '", "[\n]: x", "%", "x%%",
            "a\n===\n===", "- a\n  - b\n    - c\n      - d\n        - e", "> - > - a", "1. a\n2. b\n3) c", "[a](<b", "[a](b \"c", "![a](b 'c'",
            "<a href=\"", "[a](<b\\", "[a](b\\", "[a](b \"c\\", "[a]: <b\\\n\n[a]", "[a]: b 'c\\\n\n[a]", "![a](b (c\\", "[a](\\", "*" * 50, "_" * 31 + "a" + "_" * 30, "~" * 9 + "a" + "~" * 9, "***a** b*", "**a*b**c*", "a\\\n", "a  \n", "a\n    b", "\n\n\n",
            "é" * 20, "𝄞*𝄞*", "*é*", "_é_é_", "ſ", "[ẞ]: /u\n[SS]", "<ſcript>\nx", "&#xD800;&#x110000;&#0;", "[a][]\n\n[a]: b", "[a]\n\n[A]: b\n[a]: c"]


# runs whose length sits on the boundary of a narrow counter (u8/u16): at the line start, after a paragraph line
# (interrupter probe), inside text, before a space (seed C01-8: the 256th '#')
RUNCHARS = "#>*-_=+~`[]()!<&\\ \t1.:\"'"


def width_docs(tier):
    for ch in RUNCHARS:
        for w in ((255, 256, 257) if tier == "quick" else (127, 128, 129, 255, 256, 257, 511, 512, 513)):
            run = ch * w
            yield run
            yield run + " x"
            yield "a\n" + run + " x\n"
            yield "x " + run + " y"
    for ch in "#`1>* -=~":
        for w in (65535, 65536, 65537):
            yield ch * w + " x"
            yield "a\n" + ch * w


def cases(rng, tier, Case):
    n = 2500 if tier == "quick" else 120000
    res = []
    ins = corpus.spec_inputs()
    for d in width_docs(tier):
        for cfg in ("CsW", "nebmliatcfqhurHLpS"):
            res.append(Case("parse %s 100 TREW %s" % (cfg, hx(d)), "width", {"cfg": cfg, "nest": 100, "src": hx(d)}, len(d) < 300))
    for d in FAMILIES:
        for cfg in ("CsW", "CsWS", "nebmliat", "cfqhurHLp", mdgen.gen_cfg(rng)):
            for nest in (100, 3, 2):
                res.append(Case("parse %s %d TREW %s" % (cfg, nest, hx(d)), "family", {"cfg": cfg, "nest": nest, "src": hx(d)}))
    # the generic pair with nested parsing inside link labels / after escapes (fixed finding F14 and neighbours)
    for d in ["[``%`[\\%", "[a %b\\% c](u) %", "% [x\\%](u)", "[% a `%` b %](u)", "%%[a\\%%b]%% %", "[x % y\\% z", "![% \\%](u)%"]:
        for cfg in ("b8lep", "8bel", "nebmliatcfqhurHL8psxXS", "Cs8", "8Cs"):
            for nest in (100, 2):
                res.append(Case("parse %s %d TREW %s" % (cfg, nest, hx(d)), "family", {"cfg": cfg, "nest": nest, "src": hx(d)}))
    # marker runs of every length up to 140 (and some longer) tried as openers after an unmatched run of another length has
    # completed the scan of the paragraph: tables indexed by run length (seed C01-12, fixed finding F1)
    runs = list(range(1, 70)) + [70, 95, 96, 100, 127, 128, 129, 140] + ([255, 256, 257, 1000] if tier != "quick" else [256])
    for k in runs:
        for ch, cfg in (("`", "CsW"), ("`", "bp"), ("%", "Cs8"), ("~", "Cs"), ("*", "Cs"), ("_", "mp")):
            if k > 40 and ch in "~*_" and k % 5:
                continue
            for d in ("a " + ch + " b " + ch * k, ch * 2 + " x " + ch * k + " y " + ch * (k + 1), "[" + ch * k + "](u) " + ch, ch * k + "a" + ch * (k - 1) + " " + ch * k + "b"):
                res.append(Case("parse %s 100 TREW %s" % (cfg, hx(d)), "runs", {"cfg": cfg, "nest": 100, "src": hx(d)}, compare=k <= 140))
    for i, d in enumerate(ins):
        if tier == "quick" and i % 4:
            continue
        cfg = mdgen.gen_cfg(rng)
        res.append(Case("parse %s 100 TREW %s" % (cfg, hx(d)), "spec", {"cfg": cfg, "nest": 100, "src": hx(d)}))
    for _ in range(n):
        d = mdgen.clean_utf8(mdgen.gen_doc(rng))
        cfg = mdgen.gen_cfg(rng)
        nest = rng.choice([100, 100, 100, 0, 1, 2, 3, 10])
        res.append(Case("parse %s %d TREW %s" % (cfg, nest, hx(d)), "gen", {"cfg": cfg, "nest": nest, "src": hx(d)}))
    return res


def oracle(case, io, mo):
    if io.startswith("ok "):
        return None
    if io.startswith("panic"):
        parts = io.split(" ")
        msg = unhx(parts[2]).decode("utf-8", "replace") if len(parts) > 2 else ""
        return "panic %s: %s" % (parts[1] if len(parts) > 1 else "?", msg[:200])
    if io.startswith("abort"):
        return "process aborted (%s)" % io
    if io.startswith("hang"):
        return "did not terminate within the time limit"
    return "did not return normally: " + io[:100]


def nontrivial(case, io):
    f = fields(io)
    t = f.get("tree", "")
    return t.count(";") >= 2


def known_match(k, case, io, msg):
    return False


def shrink(case, hb, drv, Case, lib):
    from check import shrink_bytes
    p = case.params

    def fails(b):
        line = "parse %s %d TREW %s" % (p["cfg"], p["nest"], hx(b))
        io = lib.run_proto(hb, [line], timeout=30)[0]
        return not io.startswith("ok ")
    small = shrink_bytes(unhx(p["src"]), fails)
    return {"src_hex": hx(small), "src": small.decode("utf-8", "replace"), "cfg": p["cfg"], "nest": p["nest"]}
