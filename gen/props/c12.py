# C12 -- escapes and character references mean the same in every context
import sys, os, re
sys.path.insert(0, os.path.dirname(os.path.dirname(os.path.abspath(__file__))))
import lib
from lib import hx, unhx
import mdgen
from parsecommon import project, fields, parse_tree, text_arg, read_html, strip_tags_text

COQ_TARGETS = ["props/C12.vo"]
RULE = ("references r (every name of the generated entity table in the thorough tier, a sample in the quick tier; decimal/x/X hex "
        "numeric references over boundary and invalid code points, 1..7/1..6 digits with leading zeros) and all 32 backslash-escaped "
        "punctuation characters, each placed in paragraph text, link destination, link title, reference definition "
        "(destination+title) and fence info string; oracle: the decoded characters agree across the five contexts (destinations "
        "compared after percent-decoding). Round trip: random printable single-line strings with every ASCII punctuation character "
        "backslash-escaped must display exactly the string. unesc/ent/entcode unit cases tie the decoders to the model. "
        "Non-trivial = always (each case is a distinct reference/context or string); distinct = distinct cases.")
PUNCT = "!\"#$%&'()*+,-./:;<=>?@[\\]^_`{|}~"


def numeric_refs(rng, tier):
    codes = [0, 1, 8, 9, 10, 11, 13, 31, 32, 34, 38, 60, 62, 65, 127, 128, 159, 160, 255, 0x3bb, 0xD7FF, 0xD800, 0xDFFF, 0xE000, 0xFDCF, 0xFDD0, 0xFDEF, 0xFDF0,
             0xFFFD, 0xFFFE, 0xFFFF, 0x10000, 0x1FFFE, 0x1FFFF, 0x10FFFD, 0x10FFFF, 0x110000, 0xFFFFFF, 9999999, 1234567]
    codes += [rng.randrange(0x110000) for _ in range(20 if tier == "quick" else 400)]
    out = []
    for c in codes:
        out.append("&#%d;" % c)
        out.append("&#x%x;" % c)
        out.append("&#X%X;" % c)
        if c < 100000:
            out.append("&#%07d;" % c)
            out.append("&#x%06x;" % c)
    return [r for r in out if re.fullmatch(r"&#(\d{1,7}|[xX][0-9a-fA-F]{1,6});", r)]


def pct_decode(b):
    return re.sub(rb"%([0-9A-Fa-f]{2})", lambda m: bytes([int(m.group(1), 16)]), b)


def docs_for(ref):
    # the reference is followed by a letter so that it cannot merge with syntax
    return {
        "text": "a%sz" % ref,
        "dest": "[l](/p%sz)" % ref,
        "title": "[l](/u \"t%sz\")" % ref,
        "refdef": "[l][r]\n\n[r]: /p%sz 't%sz'" % (ref, ref),
        "title_sq": "[l](/u 't%sz')" % ref,
        "title_par": "[l](/u (t%sz))" % ref,
        "refdef_dq": "[l][r]\n\n[r]: </p%sz> \"t%sz\"" % (ref, ref),
        "refdef_par": "[l][r]\n\n[r]: /p%sz\n  (t%sz)" % (ref, ref),
        "info": "```q%sz\nc\n```" % ref,
        # the reference as the first / the last thing of a destination (seed C12-9: white space denoted by a reference is
        # part of the destination, not padding around it)
        "dest_start": "[l](%sz)" % ref,
        "dest_end": "[l](/p%s)" % ref,
        "refdef_start": "[l][r]\n\n[r]: %sz" % ref,
        "refdef_end": "[l][r]\n\n[r]: /p%s\n" % ref,
    }


# paragraph-text surroundings: (source put between 'a' and the reference, what that source displays as).
# Adjacent markup characters that stay literal (seed C12-7: a bare '&' right before the reference) and paragraphs
# that already hold many inline tokens inside brackets (seed C12-8: level leak per look-ahead token).
PRES = [("&", "&"), ("&&", "&&"), ("& ", "& "), ("\\\\", "\\"), ("*", "*"), ("_", "_"), ("]", "]"), ("!", "!"), ("~", "~"), (";", ";"), ("#", "#"),
        ("&amp", "&amp"), ("&#", "&#"), ("<", "<"), ("\\&", "&"), ("&amp;", "&")]
CROWDED = [("[" + "a\\+" * 60 + "] ", "[" + "a+" * 60 + "] "), ("[" + "&amp;" * 120 + "]", "[" + "&" * 120 + "]"),
           ("![" + "\\* " * 101 + "x](", "![" + "* " * 101 + "x]("), ("a\\+" * 250, "a+" * 250), ("[[" + "b&lt;" * 40 + "]" + "c\\]" * 40, "[[" + "b<" * 40 + "]" + "c]" * 40)]


def cases(rng, tier, Case):
    res = []
    names = []
    path = os.path.join(lib.COQ, "gen", "Tables.v")
    if os.path.exists(path):
        txt = open(path).read()
        m = re.search(r"Definition entity_table .*?:= \[(.*?)\]\.\nDefinition", txt, re.S)
        if m:
            for em in re.finditer(r"\(\[([0-9; ]*)\], \[[0-9; ]*\]\)", m.group(1)):
                names.append(bytes(int(x) for x in em.group(1).split(";")).decode())
    if tier == "quick":
        by_len = sorted(names, key=len)
        names = by_len[:15] + by_len[-25:] + rng.sample(names, min(len(names), 120)) + ["&amp;", "&lt;", "&gt;", "&quot;", "&nbsp;", "&ngE;", "&NotEqualTilde;", "&fjlig;", "&Tab;", "&NewLine;"]
    # references and escapes whose decoded form again looks like a reference or an escape: decoded exactly once everywhere
    layered = ["&amp;lt;", "&amp;amp;", "&amp;#65;", "&#38;amp;", "&amp;copy;", "&#x26;#x26;", "\\\\\\*", "\\\\&amp;", "&amp;\\*", "\\&amp;lt;", "&#92;*", "&#92;&#92;"]
    refs = names + numeric_refs(rng, tier) + ["\\" + c for c in PUNCT] + layered
    for r in refs:
        for ctx, d in docs_for(r).items():
            res.append(Case("parse Cs 100 TR %s" % hx(d), "ctx-" + ctx, {"ref": r, "ctx": ctx, "src": hx(d)}))
        res.append(Case("unesc %s" % hx(r), "unesc", {"unit": 1, "src": hx(r)}))
        if r.startswith("&") and not r.startswith("&#"):
            res.append(Case("ent %s" % hx(r), "ent", {"unit": 1, "src": hx(r)}))
    sample = refs if tier != "quick" else (rng.sample(names, min(len(names), 25)) + rng.sample(numeric_refs(rng, tier), 25) + ["\\" + c for c in PUNCT] + layered[:4])
    for r in sample:
        for j, (pre, disp) in enumerate(PRES):
            d = "a" + pre + r + "z"
            res.append(Case("parse Cs 100 TR %s" % hx(d), "ctx-textpre", {"ref": r, "ctx": "textpre", "pre": j, "src": hx(d)}))
    for r in ["&amp;", "&#65;", "\\*", "&copy;", "&#x3bb;", "\\&", "&ngE;"] + (rng.sample(names, min(len(names), 40)) if tier != "quick" else []):
        for j, (pre, disp) in enumerate(CROWDED):
            d = pre + r + "z"
            res.append(Case("parse Cs 100 TR %s" % hx(d), "ctx-crowded", {"ref": r, "ctx": "crowded", "pre": j, "src": hx(d)}))
    for c in [0, 8, 9, 0xB, 0xD, 0xE, 0x1F, 0x20, 0x7E, 0x7F, 0x9F, 0xA0, 0xD7FF, 0xD800, 0xDFFF, 0xE000, 0xFDCF, 0xFDD0, 0xFDEF, 0xFDF0, 0xFFFE, 0xFFFF, 0x1FFFE, 0x10FFFF, 0x110000, 0xFFFFFFFF] + \
             [rng.randrange(0x120000) for _ in range(100 if tier == "quick" else 3000)]:
        res.append(Case("entcode %d" % c, "entcode", {"unit": 1, "src": "-"}))
    # malformed / near-miss references: decided by the correspondence
    for r in ["&#;", "&#x;", "&#12345678;", "&#x1234567;", "&amp", "&;", "&a;", "&#xg;", "&#1a;", "&Amp;", "&AMP;", "&ſ;", "&#x41", "\\a", "\\é", "\\", "&#0000065;", "&#x000041;"]:
        res.append(Case("unesc %s" % hx(r), "unesc", {"unit": 1, "src": hx(r)}))
        for ctx, d in docs_for(r).items():
            res.append(Case("parse Cs 100 TR %s" % hx(d), "near-" + ctx, {"unit": 1, "src": hx(d)}))
    # round trip
    n = 500 if tier == "quick" else 30000
    for _ in range(n):
        k = rng.choice([1, 2, 3, 5, 8, 13, 30])
        s = "".join(rng.choice(PUNCT) if rng.random() < 0.5 else rng.choice("abcXYZ019 é€𝄞") for _ in range(k))
        s = s.strip(" ")
        s = re.sub(r" {2,}", " ", s)
        if not s:
            continue
        escd = "".join(("\\" + c) if c in PUNCT else c for c in s)
        res.append(Case("parse Cs 100 TR %s" % hx(escd), "roundtrip", {"rt": hx(s), "src": hx(escd)}))
    return res


_ctx = {}


def decoded(case, f):
    """the characters the reference denotes in this context"""
    nodes = parse_tree(f["tree"])
    ctx = case.params["ctx"]
    if ctx == "text":
        txt = b"".join(text_arg(n) for n in nodes if n.kind in ("Text", "TextSpecial"))
        return txt[1:-1] if txt.startswith(b"a") and txt.endswith(b"z") else None
    if ctx in ("textpre", "crowded"):
        txt = b"".join(text_arg(n) for n in nodes if n.kind in ("Text", "TextSpecial"))
        disp = (("a" + PRES[case.params["pre"]][1]) if ctx == "textpre" else CROWDED[case.params["pre"]][1]).encode()
        return txt[len(disp):-1] if txt.startswith(disp) and txt.endswith(b"z") else b"<<surroundings changed: %r>>" % txt[:80]
    if ctx.endswith("_start") or ctx.endswith("_end"):
        links = [n for n in nodes if n.kind == "Link"]
        if len(links) != 1:
            return None
        url = pct_decode(text_arg(links[0], 0))
        if ctx.endswith("_start"):
            return url[:-1] if url.endswith(b"z") else None
        return url[2:] if url.startswith(b"/p") else None
    if ctx.startswith("title"):
        ctx = "title"
    if ctx.startswith("refdef"):
        ctx = "refdef"
    if ctx in ("dest", "refdef"):
        links = [n for n in nodes if n.kind == "Link"]
        if len(links) != 1:
            return None
        url = pct_decode(text_arg(links[0], 0))
        d = url[2:-1] if url.startswith(b"/p") and url.endswith(b"z") else None
        if ctx == "refdef":
            t = unhx(links[0].args[1][1:]) if links[0].args[1] != "none" else None
            t = t[1:-1] if t and t.startswith(b"t") and t.endswith(b"z") else None
            return d if d == t else b"<<dest/title differ: %r %r>>" % (d, t)
        return d
    if ctx == "title":
        links = [n for n in nodes if n.kind == "Link"]
        if len(links) != 1 or links[0].args[1] == "none":
            return None
        t = unhx(links[0].args[1][1:])
        return t[1:-1] if t.startswith(b"t") and t.endswith(b"z") else None
    if ctx == "info":
        ok, msg, elems = read_html(unhx(f["html"]))
        for tag, attrs in elems:
            if tag == "code" and "class" in attrs:
                c = attrs["class"]
                return c[len(b"language-q"):-1] if c.startswith(b"language-q") and c.endswith(b"z") else None
        return None


def oracle(case, io, mo):
    if not io.startswith("ok"):
        return "did not return normally: " + io[:120]
    p = case.params
    if "unit" in p:
        return None
    f = fields(io)
    if "rt" in p:
        want = unhx(p["rt"])
        html = unhx(f["html"])
        m = re.fullmatch(rb"<p>(.*)</p>\n", html, re.S)
        got = strip_tags_text(m.group(1)) if m else None
        if got != want:
            return "escaping every punctuation character of %r displays %r" % (want[:60], (got or html)[:60])
        return None
    d = decoded(case, f)
    ref = p["ref"]
    if p["ctx"] == "text":
        _ctx[ref] = d
        if d is None:
            return "reference %s is not decoded in paragraph text" % ref
        return None
    base = _ctx.get(ref)
    if base is None:
        return None
    # whitespace-valued references cannot be observed inside an info string word (only its first word is shown)
    if base == b"" or (p["ctx"] == "info" and any(ch.isspace() for ch in base.decode("utf-8", "replace"))):
        return None
    if p["ctx"] == "info" and "`" in ref:
        return None          # a backtick in the info string of a backtick fence is not a fence at all
    if d != base:
        return "%s denotes %r in paragraph text but %r in context '%s'" % (ref, base, d, p["ctx"])
    return None


def nontrivial(case, io):
    return True


def known_match(k, case, io, msg):
    return False
