# C04 -- dangerous URL schemes are never emitted as link or image destinations
import sys, os, re
sys.path.insert(0, os.path.dirname(os.path.dirname(os.path.abspath(__file__))))
from lib import hx, unhx
import mdgen
from parsecommon import project, fields, read_html

COQ_TARGETS = ["props/C04.vo"]
RULE = ("parse cases (no raw-HTML plugin): scheme spelling (javascript, vbscript, file, data incl. data:image whitelist, benign) x "
        "obfuscation (letter case, named/decimal/hex character references for any letter or the colon, backslash escapes, leading "
        "controls/whitespace, embedded tab/newline, percent-encoding, Unicode look-alikes U+017F/U+212A, fullwidth) x link syntax "
        "(inline, <bracketed>, reference full/collapsed/shortcut, autolink, image, nested in emphasis/quote/list); plus norm/valid unit "
        "cases. Oracle: every href/src of the HTML output, read the way a browser does (attribute unescaped, C0/space stripped, "
        "tab/newline removed, scheme lower-cased), is not javascript/vbscript/file/data (data:image/gif|png|jpeg|webp excepted). "
        "Non-trivial = the URL spells a dangerous scheme after decoding; distinct = distinct documents.")
SCHEMES = ["javascript", "vbscript", "file", "data", "JavaScript", "VBSCRIPT", "File", "DATA", "jAvAsCrIpT", "http", "mailto", "x-javascript", "javascripts"]
TAILS = [":alert(1)//data:image/png;", ":x;data:image/gif;base64", ":data:image/jpeg;", ":alert(1)", ":x", "://x", ":text/html,<b>", ":image/png;base64,AA", ":image/svg+xml;x", ":image/gif;", ":IMAGE/PNG;x", ":image/png", ":image/jpeg;a", ":image/webp;", ":", ""]


def obf(rng, url):
    k = rng.random()
    if k < 0.25 or not url:
        return url
    i = rng.randrange(len(url))
    c = url[i]
    if k < 0.45:
        rep = rng.choice(["&#%d;" % ord(c), "&#x%x;" % ord(c), "&#X%X;" % ord(c), "&#%07d;" % ord(c)])
        if c == ":":
            rep = rng.choice([rep, "&colon;"])
        return url[:i] + rep + url[i + 1:]
    if k < 0.55:
        return url[:i] + "\\" + url[i:]
    if k < 0.65:
        return rng.choice([" ", "\t", "\x01", "&#9;", "&#10;", "&#32;", "&NewLine;", "&Tab;", "\x0c", "\\\n"]) + url
    if k < 0.75:
        return url[:i] + rng.choice(["&#9;", "&#10;", "&#13;", "&Tab;", "&NewLine;", "&#0;", "&#x0;", "&shy;", "&zwj;"]) + url[i:]
    if k < 0.85:
        return url[:i] + "%%%02x" % ord(c) + url[i + 1:] if ord(c) < 128 else url
    return url.replace("s", rng.choice(["ſ", "s", "S", "ｓ"]), 1).replace("k", rng.choice(["K", "k"]), 1)


def doc_for(rng, url):
    t = rng.random()
    title = rng.choice(["", " \"t\"", " 'javascript:x'"])
    if t < 0.2:
        d = "[a](%s%s)" % (url, title)
    elif t < 0.35:
        d = "[a](<%s>%s)" % (url, title)
    elif t < 0.5:
        d = rng.choice(["[a][r]", "[r][]", "[r]", "![a][r]", "![r]"]) + "\n\n[r]: %s%s" % (rng.choice([url, "<" + url + ">"]), title)
    elif t < 0.6:
        d = "<%s>" % url
    elif t < 0.8:
        d = "![a](%s%s)" % (url, title)
    elif t < 0.9:
        d = rng.choice(["> ", "- ", "1. "]) + "*[a](%s)*" % url
    else:
        d = "[r]: %s\n\n[![b](%s)][r]" % (url, url)
    return d


def cases(rng, tier, Case):
    res = []
    n = 2500 if tier == "quick" else 150000
    for _ in range(n):
        url = rng.choice(SCHEMES) + rng.choice(TAILS)
        for _ in range(rng.choice([0, 1, 1, 2, 3])):
            url = obf(rng, url)
        d = mdgen.clean_utf8(doc_for(rng, url))
        cfg = rng.choice(["Cs", "CsS", mdgen.gen_cfg(rng, forbid="xX", require="lirap")])
        res.append(Case("parse %s 100 TR %s" % (cfg, hx(d)), "url", {"cfg": cfg, "src": hx(d), "url": url}))
    for _ in range(n // 5):
        d = mdgen.clean_utf8(mdgen.gen_doc(rng))
        cfg = mdgen.gen_cfg(rng, forbid="xX")
        res.append(Case("parse %s 100 TR %s" % (cfg, hx(d)), "gen", {"cfg": cfg, "src": hx(d), "url": ""}))
    # several constructs in one document: an accepted URL first, then a rejected one with the same scheme / label / syntax
    # (seed C04-7: verdict remembered per scheme; seed C04-8: a later definition of a label that is already defined)
    good = ["data:image/png;base64,AA", "data:image/gif;x", "DATA:image/jpeg;a", "http://x.y/", "mailto:a@b.c", "/safe", "data:image/webp;q"]
    bad = ["data:text/html;base64,BB", "data:image/svg+xml;x", "javascript:alert(1)", "DATA:,x", "file:///etc/passwd", "vbscript:x", "data:image/png", "Data:text/plain;y"]
    forms = [lambda u: "<%s>" % u, lambda u: "[a](%s)" % u, lambda u: "![a](%s)" % u, lambda u: "[a](<%s> 't')" % u]
    for g in good:
        for b in bad:
            for sep in (" ", "\n\n", "\n\n> "):
                f1, f2 = rng.choice(forms), rng.choice(forms)
                for d in (f1(g) + sep + f2(b), f1(g) + sep + f1(b), f1(g) + " " + f1(g) + sep + f2(b) + " " + f1(b)):
                    res.append(Case("parse Cs 100 TR %s" % hx(d), "sequence", {"cfg": "Cs", "src": hx(d), "url": b, "literal": [b]}))
            for d in ("[x]: %s\n[x]: %s\n\n[x]" % (g, b), "[x]: %s\n\n[X]: %s 't'\n\n[x] [X]" % (g, b), "> [x]: %s\n\n[x]: <%s>\n\n![x]" % (g, b),
                      "[x]: %s\n[y]: %s\n[x]: %s\n\n[x] [y]" % (g, g, b)):
                res.append(Case("parse Cs 100 TR %s" % hx(d), "redefine", {"cfg": "Cs", "src": hx(d), "url": b, "literal": [b]}))
    for b in bad:
        for d in ("[a](%s)" % b, "<%s>" % b, "![a](%s \"t\")" % b, "[r]: %s\n\n[r]" % b, "[a][r]\n\n[r]: <%s>" % b, "- [r]: %s 't'\n\n![r]" % b):
            res.append(Case("parse Cs 100 TR %s" % hx(d), "literal", {"cfg": "Cs", "src": hx(d), "url": b, "literal": [b]}))
    # the validator in force at PARSE time decides (it is a public field): plugins registered while a permissive validator
    # was installed must not keep it (seed C04-12); harness op V, oracle only
    for url in ("javascript:alert(1)", "vbscript:x", "file:///etc/passwd", "data:text/html,x", "JaVaScRiPt:alert(1)"):
        d = "[a](%s) ![b](%s) <%s>\n\n[r]: %s\n\n[r] ![r]" % (url, url, url, url)
        for pat in ("V0;+C;V1", "V0;+l;+i;+a;+r;V1;+p", "V0;+p;+l;V1;+i;+r;+a", "+C;V0;P;V1", "V0;+C;P;V1", "V0;V1;+C", "+p;V0;+l;+i;V1;+a;+r;+s"):
            ops = ";".join(("P" + hx(d)) if x == "P" else x for x in pat.split(";")) + ";P" + hx(d)
            res.append(Case("hist 100 TR %s" % ops, "validator-hist", {"cfg": "C", "src": hx(d), "url": url}, compare=False))
    for _ in range(n // 3):
        url = rng.choice(SCHEMES) + rng.choice(TAILS)
        for _ in range(rng.choice([0, 1, 2])):
            url = obf(rng, url)
        url = mdgen.clean_utf8(url)
        res.append(Case("norm %s" % hx(url), "norm", {"u": hx(url)}))
        res.append(Case("valid %s" % hx(url), "valid-raw", {"u": hx(url)}))
    return res


BAD = (b"javascript", b"vbscript", b"file", b"data")
GOOD_DATA = re.compile(rb"^data:image/(gif|png|jpeg|webp);", re.I)


def browser_dangerous(attr_value):
    """attr_value: attribute value after HTML unescaping. WHATWG URL parser, first states."""
    v = attr_value.lstrip(bytes(range(0, 33))).replace(b"\t", b"").replace(b"\n", b"").replace(b"\r", b"")
    m = re.match(rb"^([A-Za-z][A-Za-z0-9+.\-]*):", v)
    if not m:
        return False
    scheme = m.group(1).lower()
    if scheme not in BAD:
        return False
    if scheme == b"data" and GOOD_DATA.match(v):
        return False
    return True


def oracle(case, io, mo):
    if not io.startswith("ok"):
        return "did not return normally: " + io[:120]
    if "u" in case.params:
        u = unhx(case.params["u"])
        if case.tag == "valid":
            # validate_link must reject whatever a browser would run (on already-normalised text)
            if io.strip() == "ok 1" and all(b < 128 for b in u) and browser_dangerous(u):
                return "validate_link accepts %r" % u
        return None
    if case.tag == "validator-hist":
        io = io[io.rindex(";P[") + 3:-1] if ";P[" in io else io[io.index("P[") + 2:-1]
        if not io.startswith("ok"):
            return "did not return normally: " + io[:120]
    f = fields(io)
    html = unhx(f["html"])
    ok, msg, elems = read_html(html, sourcepos="S" in case.params["cfg"])
    if not ok:
        return "output not well-formed: " + msg
    for tag, attrs in elems:
        for name in ("href", "src"):
            if name in attrs and browser_dangerous(attrs[name]):
                return "<%s %s=%r> would be interpreted by a browser as a dangerous URL" % (tag, name, attrs[name][:60])
    # the destinations kept in the tree (what a custom renderer or a link-rewriting plugin re-emits): seed C04-10
    from parsecommon import parse_tree, text_arg
    for n in parse_tree(f["tree"]):
        if n.kind in ("Link", "Image", "Autolink") and browser_dangerous(text_arg(n, 0)):
            return "%s node holds the destination %r, which a browser would interpret as a dangerous URL" % (n.kind, text_arg(n, 0)[:60])
    for lit in case.params.get("literal", []):
        # a construct whose destination is rejected stays literal text
        from parsecommon import strip_tags_text
        if lit.encode() not in strip_tags_text(html):
            return "the rejected destination %r does not stay in the output as literal text (the construct was swallowed)" % lit
    return None


def followup(case, io, Case):
    # the filter is applied to normalised text: validate what normalize_link produced
    if case.tag == "norm" and io.startswith("ok "):
        out = io[3:].strip() or "-"
        return [Case("valid %s" % out, "valid", {"u": out})]
    return []


def nontrivial(case, io):
    u = case.params.get("url") or ""
    return any(s in u.lower() for s in ("script", "file", "data"))


def known_match(k, case, io, msg):
    return False
