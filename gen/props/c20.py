# C20 -- typed storage and tree API obey their map and traversal semantics
import sys, os
sys.path.insert(0, os.path.dirname(os.path.dirname(os.path.abspath(__file__))))
from lib import hx, unhx

COQ_TARGETS = ["props/C20.vo"]
RELEASE_TOO = True
RULE = ("eset cases: random sequences (1..40 ops) of insert / get / get_mut+assign / get_or_insert(_with/_default) / remove / "
        "contains / clear / len over five value types (two zero-sized, two same-layout newtypes, one String) and 96 further same-layout types (stores of 9..96 types filled, partly emptied, cleared while large and refilled in another order), biased to removals "
        "from sets of >= 3 types followed by look-ups; walk cases: random tree shapes (wide, deep > 300 levels with siblings below "
        "depth 256, attributes and ranges on every node) with walk, walk_mut and replace on alternate levels; oracle: Python dict "
        "model of the storage, pre-order/depth specification of the traversal, replace preserves children, range and attributes. "
        "Non-trivial = sequence has >= 3 ops touching >= 2 types / tree has >= 3 nodes; distinct = distinct cases.")


def gen_eset(rng):
    n = rng.choice([1, 3, 5, 8, 13, 20, 40])
    ops = []
    for _ in range(n):
        t = rng.randrange(7)
        v = rng.choice([0, 1, 7, 42, 1000, 4294967295])
        k = rng.random()
        if k < 0.25:
            ops.append("i%d,%d" % (t, v))
        elif k < 0.40:
            ops.append("g%d" % t)
        elif k < 0.50:
            ops.append("m%d,%d" % (t, v))
        elif k < 0.62:
            ops.append(rng.choice(["o%d,%d" % (t, v), "d%d" % t]))
        elif k < 0.80:
            ops.append("r%d" % t)
        elif k < 0.88:
            ops.append("h%d" % t)
        elif k < 0.92:
            ops.append("c")
        else:
            ops.append("l")
    ops += ["l"] + ["g%d" % t for t in range(7)]
    return ops


def gen_eset_many(rng):
    """stores holding many types at once: fill, remove some, look everything up; clear while large, refill in another order"""
    k = rng.choice([9, 10, 12, 17, 33, 64, 65, 96])
    pool = rng.sample(range(7, 103), k) + rng.sample(range(0, 7), rng.choice([0, 2, 7]))
    ops = []
    for t in pool:
        ops.append("i%d,%d" % (t, t * 3 + 1))
    ops.append("l")
    for round_ in range(rng.choice([1, 2, 3])):
        gone = rng.sample(pool, rng.choice([1, 2, len(pool) // 3, len(pool) // 2]))
        for t in gone:
            ops.append("r%d" % t)
            if rng.random() < 0.3:
                ops += ["h%d" % u for u in rng.sample(pool, min(4, len(pool)))]
        ops.append("l")
        ops += ["g%d" % t for t in pool] + ["h%d" % t for t in pool]
        if rng.random() < 0.6:
            ops.append("c")
            ops.append("l")
            pool = rng.sample(range(7, 103), rng.choice([3, 9, 11, 20, 70]))
            rng.shuffle(pool)
        for t in pool:
            ops.append(rng.choice(["i%d,%d", "o%d,%d", "i%d,%d"]) % (t, t + round_))
        for t in rng.sample(pool, min(5, len(pool))):
            ops.append("m%d,%d" % (t, 5))
        ops += ["d%d" % t for t in rng.sample(range(7, 103), 3)]
    ops += ["l"] + ["g%d" % t for t in range(0, 103)]
    return ops


def eset_spec(ops):
    m = {}
    out = []

    def show(t, v):
        return "z" if t < 2 else str(v)
    for op in ops:
        c = op[0]
        rest = op[1:]
        t = int(rest.split(",")[0]) if rest else 0
        v = int(rest.split(",")[1]) if "," in rest else 0
        if c == "i":
            old = m.get(t)
            m[t] = v
            out.append("-" if old is None else show(t, old))
        elif c == "g":
            out.append("-" if t not in m else show(t, m[t]))
        elif c == "m":
            if t in m:
                out.append(show(t, m[t]))
                if t >= 2:
                    m[t] = v
            else:
                out.append("-")
        elif c == "o":
            if t not in m:
                m[t] = v
            out.append(show(t, m[t]))
        elif c == "d":
            if t not in m:
                m[t] = 0
            out.append(show(t, m[t]))
        elif c == "r":
            old = m.pop(t, None)
            out.append("-" if old is None else show(t, old))
        elif c == "h":
            out.append("1" if t in m else "0")
        elif c == "c":
            m.clear()
            out.append("c")
        elif c == "l":
            out.append("%d%s" % (len(m), "e" if not m else "n"))
    return "ok " + ";".join(out)


def gen_shape(rng, deep):
    if deep:
        d = rng.choice([260, 300, 400])
        s = ""
        for lvl in range(d):
            s += "("
            if lvl > 250 and rng.random() < 0.3:
                s += "()" * rng.choice([1, 2])
        s += "()()" + ")" * d
        return s
    def rec(depth):
        k = rng.choice([0, 0, 1, 2, 3]) if depth < 6 else 0
        return "(" + "".join(rec(depth + 1) for _ in range(k)) + ")"
    return rec(0)


def walk_spec(shape):
    order = []
    ids = [0]
    def rec(i, depth):
        # shape[i] == '('
        my = ids[0]; ids[0] += 1
        order.append((my, depth))
        i += 1
        while shape[i] == "(":
            i = rec(i, depth + 1)
        return i + 1
    import sys as _s
    _s.setrecursionlimit(10000)
    rec(0, 0)
    return order


def cases(rng, tier, Case):
    res = []
    n = 800 if tier == "quick" else 40000
    for _ in range(n):
        ops = gen_eset(rng)
        res.append(Case("eset " + ";".join(ops), "eset", {"ops": ops}))
    for _ in range(n // 5):
        ops = gen_eset_many(rng)
        res.append(Case("eset " + ";".join(ops), "eset-many", {"ops": ops}))
    for _ in range(n // 4):
        sh = gen_shape(rng, False)
        res.append(Case("walk " + sh, "walk", {"shape": sh}))
    for _ in range(6 if tier == "quick" else 100):
        sh = gen_shape(rng, True)
        res.append(Case("walk " + sh, "walk-deep", {"shape": sh}, compare=False))
    # traversal with a callback that gives leaves a child: the new children must be visited too (implementation-only; oracle below)
    for sh in ["()", "(())", "(()())", "((())())"] + [gen_shape(rng, False) for _ in range(n // 8)]:
        res.append(Case("walk " + sh + " g", "walk-grow", {"shape": sh, "grow": 1}, compare=False))
    return res


def oracle(case, io, mo):
    if not io.startswith("ok"):
        return "did not return normally: " + io[:120]
    p = case.params
    if "ops" in p:
        want = eset_spec(p["ops"])
        if io != want:
            return "storage behaves differently from a map with one value per type: got %s, expected %s" % (io[:120], want[:120])
        return None
    order = walk_spec(p["shape"])
    parts = dict(x.split("=", 1) for x in io[3:].split(" "))
    if "grow" in p:
        # leaves of the original tree: nodes whose successor in pre-order is not deeper
        leaf = {i for k, (i, d) in enumerate(order) if k + 1 == len(order) or order[k + 1][1] <= d}
        exp = []
        for i, d in order:
            exp.append("%d/%d" % (i, d))
            if i in leaf and i % 3 == 0:
                exp.append("n%d/%d" % (i, d + 1))
        if parts.get("g") != ",".join(exp):
            return "walk_mut does not visit the children a node has after the callback (every node exactly once, pre-order, true depth)"
    want = ",".join("%d/%d" % (i, d) for i, d in order)
    if parts["w"] != want:
        return "walk does not visit the nodes in pre-order with their true depth"
    if parts["m"] != want:
        return "walk_mut does not visit the nodes in pre-order with their true depth"
    # after replace at odd depths: kinds change, ids (attrs), ranges and shape stay
    nodes = parts["t"].split(";")
    if len(nodes) != len(order):
        return "replace changed the number of nodes"
    for (i, d), nd in zip(order, nodes):
        kind = "Em(42)" if d % 2 == 1 else "Text(%s)" % hx(str(i))
        exp = "%d:%s@%d-%d{id=%s}" % (d, kind, i, i + 1, hx(str(i)))
        if nd != exp:
            return "after replace node %d is %s, expected %s (children, range and attributes must be preserved)" % (i, nd, exp)
    return None


def project(o):
    return o


def nontrivial(case, io):
    p = case.params
    if "ops" in p:
        return len(p["ops"]) >= 9
    return p["shape"].count("(") >= 3


def known_match(k, case, io, msg):
    return False
