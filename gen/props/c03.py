# C03 -- without the raw-HTML plugin the output is well-formed, fully escaped markup
import sys, os
sys.path.insert(0, os.path.dirname(os.path.dirname(os.path.abspath(__file__))))
from lib import hx, unhx
import mdgen, corpus
from parsecommon import project, fields, read_html

COQ_TARGETS = ["props/C03.vo"]
RULE = ("parse cases without the raw-HTML plugins (random subsets/orders of the other 19, with and without sourcepos): hostile text "
        "(<script>, quotes, backticks, NUL, entities that decode to < > \" &) placed in every attribute-bearing construct (link/image "
        "destination and title, reference definition, autolink, fence info string, image description) and in text/code, plus generated "
        "documents and spec inputs; a strict reader of the renderer's output language must accept HTML and XHTML output: known "
        "elements only, proper nesting, allowed attributes, double-quoted escaped values, escaped character data. Also esc cases "
        "tie escape_html to the model on every class of character. Non-trivial = input contains one of < > \" & `; distinct = distinct cases.")
HOSTILE = ["<script>alert(1)</script>", "\"onmouseover=\"x", "'><img src=x>", "&lt;b&gt;", "&#60;script&#62;", "&quot;", "\\\"", "`", "<", ">", "\"", "&", "\0<",
           "&#x22; x=&#x22;", "a\"b", "--><x>", "]]>", "<!--", "javascript:alert(1)", "\\<b\\>", "&amp;lt;", "<b\nc>", "é\"é"]


def wrap(rng, h):
    return rng.choice([
        "[a](%s)" % h, "[a](<%s>)" % h, "[a](/u \"%s\")" % h, "[a](/u '%s')" % h, "[a](/u (%s))" % h, "![%s](/u)" % h, "![a](%s \"%s\")" % (h, h),
        "[r]\n\n[r]: %s \"%s\"" % (h, h), "[%s]\n\n[%s]: /u" % (h, h), "<http://x/%s>" % h, "<%s@x.y>" % h, "```%s\n%s\n```" % (h, h), "~~~ %s %s\n%s" % (h, h, h),
        "    %s" % h, "`%s`" % h, "*%s*" % h, "# %s" % h, "> %s" % h, "- %s" % h, "%s\n===" % h, "%s" % h, "1. [%s](%s '%s')" % (h, h, h), "\\%s" % h,
        "[%s][r]\n\n[r]: <%s> (%s)" % (h, h, h)])


def cases(rng, tier, Case):
    res = []
    n = 1500 if tier == "quick" else 80000
    for h in HOSTILE:
        for _ in range(4 if tier == "quick" else 30):
            d = wrap(rng, h)
            cfg = mdgen.gen_cfg(rng, forbid="xX")
            res.append(Case("parse %s 100 TR %s" % (cfg, hx(d)), "hostile", {"cfg": cfg, "src": hx(d)}))
    for i, d in enumerate(corpus.spec_inputs()):
        if tier == "quick" and i % 5:
            continue
        cfg = mdgen.gen_cfg(rng, forbid="xX")
        res.append(Case("parse %s 100 TR %s" % (cfg, hx(d)), "spec", {"cfg": cfg, "src": hx(d)}))
    for _ in range(n):
        d = mdgen.clean_utf8(mdgen.gen_doc(rng))
        if rng.random() < 0.3:
            d = d + "\n\n" + wrap(rng, rng.choice(HOSTILE))
        cfg = mdgen.gen_cfg(rng, forbid="xX")
        res.append(Case("parse %s 100 TR %s" % (cfg, hx(d)), "gen", {"cfg": cfg, "src": hx(d)}))
    # content beyond the nesting limit, long code listings with the only special characters at the very end, and parsers that
    # had the raw-HTML rules once (added, used, removed again): still no raw markup
    for h in HOSTILE[:8] + ["<div>x</div>", "<b>"]:
        for nest in (0, 1, 2, 3):
            for pre in ("> " * (nest + 1), "- " * (nest + 1), "> - " * nest + "> ", "1. " * (nest + 2)):
                d = pre + h + "\n\n" + h
                cfg = rng.choice(["Cs", "CsS", mdgen.gen_cfg(rng, forbid="xX8")])
                res.append(Case("parse %s %d TR %s" % (cfg, nest, hx(d)), "nest", {"cfg": cfg, "src": hx(d)}))
    for ln in (255, 256, 257, 270, 271, 272, 287, 300, 511, 513, 1025):
        for tail in ("<", "<b>", "&", "\"", "a<script>", "x>y"):
            body = ("lorem ipsum dolor sit amet " * 60)[:ln - len(tail)] + tail
            for d in ("```\n" + body + "\n```", "    " + body, "~~~ info\n" + body + "\n" + body[-20:] + "\n~~~", "`" + body + "`"):
                res.append(Case("parse Cs 100 TR %s" % hx(d), "longcode", {"cfg": "Cs", "src": hx(d)}))
    for h in HOSTILE[:6] + ["<div>\nx\n</div>", "a <b>c</b>"]:
        for script in ("+CW;P%s;-x;-X;P%s", "+C;+x;+X;P%s;-X;-x;P%s", "+CWs;P%s;-X;P%s;-x;P%s", "+W;+C;-x;-X;P%s"):
            docs = tuple(hx(rng.choice(["warm *up* <i>x</i>", h])) for _ in range(script.count("%s") - 1)) + (hx(h + "\n\n" + wrap(rng, h)),)
            res.append(Case("hist 100 R %s" % (script % docs), "history", {"cfg": "hist", "src": hx(h), "hist": 1}, compare=False))
    # every character reference whose value holds a character that is special in HTML (also as the first of two code
    # points: &nvlt; &nvgt; -- seed C03-7), in text, alt text, titles, headings and code-free containers
    import lib as _lib, re as _re
    special = []
    tpath = os.path.join(_lib.COQ, "gen", "Tables.v")
    if os.path.exists(tpath):
        txt = open(tpath).read()
        m = _re.search(r"Definition entity_table .*?:= \[(.*?)\]\.\nDefinition", txt, _re.S)
        if m:
            for em in _re.finditer(r"\(\[([0-9; ]*)\], \[([0-9; ]*)\]\)", m.group(1)):
                val = [int(x) for x in em.group(2).split(";") if x.strip()]
                if any(v in (60, 62, 38, 34, 39) for v in val):
                    special.append(bytes(int(x) for x in em.group(1).split(";")).decode())
    special += ["&#60;", "&#x3c;", "&#62;", "&#34;", "&#38;", "&#39;", "&#x3C;script&#x3E;"]
    for r in special:
        for d in ("a %s b" % r, "![x %s y](u \"t %s\")" % (r, r), "# h %s" % r, "> - *e %s*\n\n[l %s](<u%s> '%s')" % (r, r, r, r), "%sscript%s" % (r, r), "```%s\n```" % r):
            cfg = rng.choice(["Cs", "CsS", mdgen.gen_cfg(rng, forbid="xX")])
            res.append(Case("parse %s 100 TR %s" % (cfg, hx(d)), "entity", {"cfg": cfg, "src": hx(d)}))
    # escape_html unit correspondence
    for s in ["", "&", "<", ">", "\"", "'", "&amp;", "a<b>c\"d&e'f", "\0", "é<", " "] + [chr(c) for c in range(1, 128)]:
        res.append(Case("esc %s" % hx(s), "esc", {"esc": hx(s)}))
    for _ in range(200 if tier == "quick" else 5000):
        s = "".join(rng.choice("<>&\"'ab é\0\n") for _ in range(rng.choice([1, 3, 8])))
        res.append(Case("esc %s" % hx(s), "esc", {"esc": hx(s)}))
    return res


def oracle(case, io, mo):
    if not io.startswith("ok"):
        return "did not return normally: " + io[:120]
    if "esc" in case.params:
        src = unhx(case.params["esc"])
        want = src.replace(b"&", b"&amp;").replace(b"<", b"&lt;").replace(b">", b"&gt;").replace(b'"', b"&quot;")
        got = unhx(io[3:].strip())
        return None if got == want else "escape_html(%r) = %r" % (src, got)
    if "hist" in case.params:
        last = [x for x in io[3:].split(";") if x.startswith("P[")][-1][2:-1]
        if not last.startswith("ok"):
            return "did not return normally: " + last[:120]
        f = fields(last)
        for key in ("html", "xhtml"):
            ok, msg, _ = read_html(unhx(f[key]), sourcepos=False)
            if not ok:
                return "%s output after removing the raw-HTML rules is not well-formed renderer markup: %s" % (key, msg)
        return None
    f = fields(io)
    sp = "S" in case.params["cfg"]
    for key in ("html", "xhtml"):
        ok, msg, _ = read_html(unhx(f[key]), sourcepos=sp)
        if not ok:
            return "%s output is not well-formed renderer markup: %s" % (key, msg)
    return None


def nontrivial(case, io):
    src = unhx(case.params.get("src", case.params.get("esc", "-")))
    return any(c in src for c in b"<>\"&`")


def known_match(k, case, io, msg):
    return False
