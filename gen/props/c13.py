# C13 -- reference links resolve by normalised label; first definition wins
import sys, os, re, unicodedata
sys.path.insert(0, os.path.dirname(os.path.dirname(os.path.abspath(__file__))))
from lib import hx, unhx
import mdgen
from parsecommon import project, fields, parse_tree, text_arg

COQ_TARGETS = ["props/C13.vo"]
RULE = ("label pairs (definition label, use label) related by case variants (per-character lower/upper/title, final sigma, dotted/"
        "dotless I, sharp s / SS, ligatures, Kelvin/Angstrom signs), whitespace variants (runs of spaces/tabs/newlines, every "
        "White_Space character, leading/trailing) or unrelated; x use form (full, collapsed, shortcut, image) x definition placement "
        "(before, after, inside block quote, inside list item) x multiplicity (first wins); oracle: resolves iff the labels are equal "
        "under full Unicode case folding + whitespace collapsing (Python casefold as reference; characters whose folding differs "
        "between Unicode versions are excluded), destination/title from the first matching definition, definitions produce no "
        "output; normref unit cases tie the normaliser to the model. Non-trivial = labels differ as strings; distinct = distinct cases.")
BASE = ["foo", "Foo Bar", "ΑΓΩ", "σας", "ΣΑΣ", "straße", "STRASSE", "ﬁn", "FIN", "İstanbul", "ı", "I", "K", "k", "Å", "å", "ǅ", "ǆ", "ᾳ", "ΑΙ", "ß", "ẞ", "ς", "σ", "Σ", "é", "É", "a b", "x1", "日本", "ŉ", "ʼn", "ǰ", "J̌"]
WS = [" ", "  ", "\t", "\n", " \n ", " ", " ", "　", " ", " ", "\x0b", "\x0c", "\u0085", "\r"]


# every White_Space character (what the implementation's split_whitespace collapses), for deterministic label pairs
ALLWS = [" ", "\t", "\n", "\x0b", "\x0c", "\r", "\u0085", "\u00a0", "\u1680", "\u2000", "\u2001", "\u2002", "\u2003", "\u2004", "\u2005", "\u2006",
         "\u2007", "\u2008", "\u2009", "\u200a", "\u2028", "\u2029", "\u202f", "\u205f", "\u3000"]
# lines that look like a definition of [foo] but are not one (CommonMark 4.7): [foo] must stay unresolved, a later
# real definition must win (seed C13-8: a parenthesised title with an unescaped inner parenthesis)
NODEF = ["[foo]: /url (see (appendix)", "[foo]: /url \"title\" ok", "[foo]: /url 'a'b'", "[foo]: /url \"unclosed", "[foo]:", "[foo] : /url", "[foo]: <bar>(baz)",
         "[fo]o]: /url", "    [foo]: /url", "[foo]: /url (a\nb", "[foo]: /url \"a\n\nb\"", "[foo]: /url (a(b)c)", "[foo]: /url \"a\"b\"", "[foo]: /url 'x' 'y'",
         "[foo]: /url (x) (y)", "[foo]: </url", "[foo]: <a b> c", "[foo]: /url ((a)", "[foo]: /url ()x", "[fo[o]: /u", "[foo\n\nbar]: /u", "\\[foo]: /url",
         "[foo]: /url 'a\n\n'", "[foo]: /url (a) b)", "[foo]: /url (()", "[foo]: /url \"a\\\"", "[foo]: /url 'a\\'", "[foo]: /url (a\\)"]


def variant(rng, s):
    k = rng.random()
    if k < 0.2:
        return s
    if k < 0.35:
        return s.upper()
    if k < 0.5:
        return s.lower()
    if k < 0.6:
        return "".join(c.upper() if rng.random() < 0.5 else c.lower() for c in s)
    if k < 0.7:
        return s.casefold()
    if k < 0.85:
        return s.replace(" ", rng.choice(WS)) if " " in s else rng.choice(WS[:5]) + s + rng.choice(WS[:5])
    return s + rng.choice(["x", "2", "é"])


def norm_ref(s):
    """reference semantics: full case folding + whitespace collapsing"""
    s = re.sub(r"\s+", " ", s.strip(), flags=re.U)
    return unicodedata.normalize("NFC", s.casefold()) if False else s.casefold()


def stable(s):
    # exclude characters whose case data changed after Unicode 14 (python's) or that python's \s/strip treat differently
    return all(unicodedata.category(c) != "Cn" for c in s) and "\x1c" not in s and "\x1d" not in s and "\x1e" not in s and "\x1f" not in s


def seed_mod(rng):
    return rng.randrange(3)


def cases(rng, tier, Case):
    res = []
    n = 1200 if tier == "quick" else 60000
    for _ in range(n):
        base = rng.choice(BASE) + (" " + rng.choice(BASE) if rng.random() < 0.3 else "")
        dl = variant(rng, base)
        ul = variant(rng, base) if rng.random() < 0.8 else rng.choice(BASE)
        if any(c in dl + ul for c in "[]\\") or not dl.strip() or not ul.strip():
            continue
        if "\n\n" in dl or "\n\n" in ul or re.search(r"\n[ \t]*\n", dl + " " + ul):
            continue
        form = rng.choice(["full", "collapsed", "shortcut", "image", "imagefull"])
        use = {"full": "[t][%s]" % ul, "collapsed": "[%s][]" % ul, "shortcut": "[%s]" % ul, "image": "![%s]" % ul, "imagefull": "![t][%s]" % ul}[form]
        d1 = "[%s]: /first 'T1'" % dl
        dl2 = variant(rng, dl)
        if any(c in dl2 for c in "[]\\") or not dl2.strip() or re.search(r"\n[ \t]*\n", dl2):
            dl2 = dl
        d2 = "[%s]: /second" % dl2
        place = rng.choice(["before", "after", "quote", "item", "both", "wide", "lazy", "tabend"])
        if rng.random() < 0.06 and "\n" not in dl:
            place = "deep"
        if place == "before":
            doc = d1 + "\n\n" + use
        elif place == "after":
            doc = use + "\n\n" + d1
        elif place == "quote":
            doc = use + "\n\n> " + d1.replace("\n", "\n> ")
        elif place == "item":
            doc = "- " + d1.replace("\n", "\n  ") + "\n\n" + use
        elif place == "wide":
            # list items whose content starts at column 4 or more, nested items, items in quotes
            mk = rng.choice(["10. ", "-   ", "1.  ", "100. ", "- - ", "> 10. ", "> -   ", "1. - "])
            pad = " " * len(mk) if not mk.startswith(">") else "> " + " " * (len(mk) - 2)
            doc = mk + d1.replace("\n", "\n" + pad) + "\n\n" + use
        elif place == "lazy":
            # destination and/or title on lazy continuation lines of a quote or list item
            if "\n" in dl:
                continue
            cont = rng.choice(["[%s]:\n/first 'T1'", "[%s]: /first\n'T1'", "[%s]:\n/first\n'T1'"]) % dl
            doc = rng.choice(["> ", "- ", "> - ", "1. "]) + cont + "\n\n" + use
        elif place == "deep":
            # under many containers, still below the nesting limit (seed C13-9: a limit reached early skips the definition)
            k = rng.choice([20, 33, 49, 50, 51, 60, 75, 90, 97])
            unit = rng.choice(["- ", "> ", "1. ", "- > "])
            doc = unit * ((k if rng.random() < 0.8 else k // 2) // (2 if ">" in unit and "-" in unit else 1)) + d1 + "\n\n" + use
        elif place == "tabend":
            doc = d1 + rng.choice(["\t", " \t", "\t "]) + "\n[zz9]: /other\n\n" + use
        else:
            doc = d1 + "\n" + d2 + "\n\n" + use + "\n\n" + d2
        doc = mdgen.clean_utf8(doc)
        res.append(Case("parse Cs 100 TR %s" % hx(doc), "resolve-" + place, {"dl": dl, "ul": ul, "form": form, "src": hx(doc), "dl2": dl2 if place == "both" else None}))
    # destinations and titles in every spelling (seed C13-11: an escape before a non-ASCII character inside <...>): the
    # definition must be taken (no output of its own) and the use must resolve
    for dest in ("<docs\\été 2024.md>", "</p\\é>", "/p\\é", "<\\日本>", "<a b>", "<a\\>b>", "<\\<a>", "/a\\(b", "<é\\ü\\ß>", "<>", "<\\\\é>", "/x&amp;\\é", "<𝄞\\𝄞>"):
        for title in ("", " 'T'", " \"t\\é\"", "\n'T'", " (t\\)é)"):
            for use in ("[doc]", "[t][doc]", "![doc]"):
                for doc in ("[doc]: %s%s\n\n%s" % (dest, title, use), "%s\n\n> [doc]: %s%s" % (use, dest, title)):
                    res.append(Case("parse Cs 100 TR %s" % hx(doc), "resolve-dest", {"must": 1, "src": hx(doc), "dl": "doc", "ul": "doc", "form": "x", "dl2": None}))
    # long labels: the limit is 999 characters, not bytes (seed C13-10)
    for ch, up, cnt in (("я", "Я", 500), ("я", "Я", 998), ("é", "É", 700), ("a", "A", 999), ("日", "日", 400), ("ß", "SS", 499), ("𝄞", "𝄞", 300), ("σ", "Σ", 512)):
        for form in ("shortcut", "full"):
            dl, ul = ch * cnt, up * (cnt if len(up) == 1 else cnt)
            use = "[%s]" % ul if form == "shortcut" else "[t][%s]" % ul
            doc = "[%s]: /first 'T1'\n\n%s" % (dl, use)
            res.append(Case("parse Cs 100 TR %s" % hx(doc), "resolve-long", {"dl": dl, "ul": ul, "form": form, "src": hx(doc), "dl2": None}))
    # every character with a non-trivial case mapping (from the tables dumped from the implementation), alone and in context
    import lib as _lib
    cased = []
    tpath = os.path.join(_lib.COQ, "gen", "Tables.v")
    if os.path.exists(tpath):
        txt = open(tpath).read()
        for name in ("lower_table", "upper_table"):
            m = re.search(r"Definition %s .*?:= \[(.*?)\]\.\nDefinition" % name, txt, re.S)
            if m:
                cased += [int(x) for x in re.findall(r"\((\d+), \[", m.group(1))]
    cased = sorted(set(cased))
    if tier == "quick":
        cased = [c for i, c in enumerate(cased) if i % 3 == seed_mod(rng) % 3] + [0x2126, 0x212A, 0x212B, 0x130, 0x131, 0x3C2, 0x3A3, 0x1E9E, 0xDF, 0x149, 0x1F0, 0xFB01]
    for c in cased:
        ch = chr(c)
        res.append(Case("normref %s" % hx(ch), "normref", {"unit": hx(ch)}))
        # a label written with this character must match the same label lower-/upper-cased
        for other in {ch.lower(), ch.upper()} - {ch}:
            if any(x in other + ch for x in "[]\\") or not other.strip():
                continue
            doc = "[a%sb]: /first 'T1'\n\n[a%sb]" % (ch, other)
            res.append(Case("parse Cs 100 TR %s" % hx(doc), "resolve-cased", {"dl": "a%sb" % ch, "ul": "a%sb" % other, "form": "shortcut", "src": hx(doc), "dl2": None}))
    for w in ALLWS:
        for a, b in (("foo", "bar"), ("é", "x"), ("A", "b c")):
            for dl, ul in ((a + " " + b, a + w + b), (a + w + b, a + " " + b), (a + w + b, a + w + w + b), (a + b, a + w + b)):
                if re.search(r"[\n\r][ \t]*[\n\r]", dl + "|" + ul):
                    continue          # a blank line inside a label ends the paragraph
                for form in ("shortcut", "full"):
                    use = "[t][%s]" % ul if form == "full" else "[%s]" % ul
                    for doc in ("[%s]: /first 'T1'\n\n%s" % (dl, use), "%s\n\n[%s]: /first 'T1'" % (use, dl)):
                        res.append(Case("parse Cs 100 TR %s" % hx(doc), "resolve-ws", {"dl": dl, "ul": ul, "form": form, "src": hx(doc), "dl2": None}))
    # White_Space characters (one to three bytes) around a definition: str::trim removes them before the text is scanned
    for w in ALLWS:
        if w in "\n\r":
            continue
        for d in ("[foo]: /first 'T1'" + w, "[foo]: /first" + w + w, "[foo]: /first 'T1'" + w + "\n[bar]: /b" + w, "[foo]:" + w + "/first" + w + "'T1'" + w,
                  "[foo]: /first\n'T1'" + w, "> [foo]: /first 'T1'" + w + "\n> " + w, "[foo]: </first>" + w + "\"T1\"" + w + " "):
            doc = d + "\n\n[foo] [bar]"
            res.append(Case("parse Cs 100 TR %s" % hx(doc), "trim", {"unit": hx(doc)}))
    for nd in NODEF:
        for doc, real in ((nd + "\n\n[foo]", 0), (nd + "\n\n[foo]: /real\n\n[foo]", 1), ("[foo]\n\n" + nd, 0), ("> " + nd.replace("\n", "\n> ") + "\n\n[foo]", 0)):
            res.append(Case("parse Cs 100 TR %s" % hx(doc), "nodef", {"nodef": real, "src": hx(doc), "dl": "foo", "ul": "foo"}))
    # definitions / uses whose scanning has to count lines or fall back from an inline attempt: decided by the correspondence
    for doc in ["[foo\\\nbar]: /url\n[x]: /y\n\n[foo\\\nbar] [x]", "[foo\\\nbar]: /url\n\n[foo\\\nbar]", "[a\nb\nc]: /u\n'T\nU'\n[x]: /y\n\n[a b c] [x]",
                "[foo](/url [bar]\n\n[bar]: /b 'T'\n[foo]: /f", "![foo](/url \"t\" [bar]\n\n[bar]: /b", "[foo](<u> [bar][baz]\n\n[bar]: /b\n[baz]: /z\n[foo]: /f",
                "[foo]( [bar]\n\n[bar]: /b", "[foo](/u 't' x [bar]\n\n[bar]: /b\n[foo]: /f", "[a]: /u\\\n[b]: /v\n\n[a] [b]", "[a]:\n/u\n'T'\n[b]:\n /v\n\n[a] [b]"]:
        res.append(Case("parse Cs 100 TR %s" % hx(doc), "fixed", {"unit": hx(doc)}))
    for s in BASE + WS + [variant(rng, rng.choice(BASE)) for _ in range(200 if tier == "quick" else 5000)]:
        s = mdgen.clean_utf8(s)
        res.append(Case("normref %s" % hx(s), "normref", {"unit": hx(s)}))
    return res


def oracle(case, io, mo):
    if not io.startswith("ok"):
        return "did not return normally: " + io[:120]
    p = case.params
    if "unit" in p:
        return None
    f = fields(io)
    nodes = parse_tree(f["tree"])
    if "nodef" in p:
        links = [n for n in nodes if n.kind == "Link"]
        if p["nodef"] == 0 and links:
            return "[foo] resolves (to %r) although the document holds no well-formed definition of it" % text_arg(links[0], 0)
        if p["nodef"] == 1 and (not links or any(text_arg(l, 0) != b"/real" for l in links)):
            return "[foo] does not resolve to the only well-formed definition (/real): %r" % [text_arg(l, 0) for l in links]
        return None
    dl, ul = p["dl"], p["ul"]
    if p.get("must"):
        from parsecommon import strip_tags_text
        html = unhx(f["html"])
        if not any(n.kind in ("Link", "Image") for n in nodes):
            return "the use of [doc] does not resolve although a definition with this label stands in the document"
        if b"[doc]:" in strip_tags_text(html):
            return "the definition of [doc] was not accepted as a definition (its text shows up in the output)"
        return None
    if not (stable(dl) and stable(ul)):
        return None
    # labels with line breaks inside: the definition label may legitimately fail to parse as one label; only judge when a definition was consumed
    html = unhx(f["html"])
    defined = b"/first" not in html.replace(b'href="/first"', b"").replace(b'src="/first"', b"")
    if not defined:
        # labels with a line break inside may legitimately fail to parse as one label; a one-line definition must be accepted
        # wherever it stands (top level, quotes, list items of any width, lazy continuation, trailing blanks)
        if "\n" not in dl and "\r" not in dl and not any(c in dl for c in WS[5:]):
            return "the definition of label %r was not accepted as a definition (its text shows up in the output)" % dl
        return None
    should = norm_ref(dl) == norm_ref(ul)
    kind = "Image" if p["form"].startswith("image") else "Link"
    hits = [n for n in nodes if n.kind == kind]
    if should:
        if not hits:
            return "use label %r does not resolve to definition label %r although they are equal under case folding / whitespace collapsing" % (ul, dl)
        if text_arg(hits[0], 0) != b"/first" or hits[0].args[1] == "none":
            return "reference resolved to %r, not to the first matching definition" % text_arg(hits[0], 0)
    elif p.get("dl2") is not None and stable(p["dl2"]) and norm_ref(p["dl2"]) == norm_ref(ul):
        # upper(lower(.)) identifies dotless i with i: then the first definition legitimately matches too and wins
        lenient_first = norm_ref(dl).replace("ı", "i") == norm_ref(ul).replace("ı", "i")
        if lenient_first and hits and text_arg(hits[0], 0) == b"/first":
            return None
        if not hits or text_arg(hits[0], 0) != b"/second":
            return "use label %r should resolve to the second definition (label %r)" % (ul, p["dl2"])
    else:
        # upper(lower(.)) identifies a few more pairs than full case folding (dotless i); the property text allows 'ignores letter case'
        len_ = lambda x: norm_ref(x).replace("ı", "i")
        if hits and len_(dl) != len_(ul) and not (p.get("dl2") is not None and len_(p["dl2"]) == len_(ul) and text_arg(hits[0], 0) == b"/second"):
            return "use label %r resolves although it does not match definition label %r" % (ul, dl)
    return None


def nontrivial(case, io):
    return case.params.get("dl") != case.params.get("ul")


def known_match(k, case, io, msg):
    return False
