# C09 -- rule ordering honours every constraint, is canonical, rejects cycles loudly
import sys, os
sys.path.insert(0, os.path.dirname(os.path.dirname(os.path.abspath(__file__))))

COQ_TARGETS = ["props/C09.vo"]
RELEASE_TOO = True
RELEASE_SAME = True
RULE = ("ruler scripts: 0..9 rules with marks from a small pool, aliases (shared marks, duplicate marks), before/after/"
        "require constraints to present, absent and own marks, duplicated constraints, first/last priorities, followed "
        "by iter, iter again and Debug; an independent Python oracle recomputes edges, requirement check, stable "
        "priority partition and the greedy order and demands: permutation, every edge respected, order = greedy order, "
        "panic iff missing requirement or no admissible order, same result on the second use. Non-trivial = at least "
        "two rules and one constraint; distinct = distinct scripts.")


def gen_items(rng):
    n = rng.choice([0, 1, 2, 3, 3, 4, 5, 6, 7, 9, 9, 21, 24, 33, 48])
    big = n > 12          # long chains, mostly unconstrained, priority classes interleaved (seed C09-8: unstable pre-sort)
    pool = list(range(1, (n if big else rng.choice([2, 3, 5, 7])) + 1))
    absent = [pool[-1] + 50, pool[-1] + 51] if pool else [20, 21]
    items = []
    for i in range(n):
        marks = [pool[i] if big and rng.random() < 0.9 else rng.choice(pool)]
        for _ in range(rng.choice([0, 0, 0, 1, 1, 2]) if not big else rng.choice([0, 0, 0, 0, 1])):
            marks.append(rng.choice(pool))
        cons = []
        for _ in range(rng.choice([0, 0, 1, 1, 2, 3]) if not big else rng.choice([0, 0, 0, 0, 0, 1])):
            kind = rng.choice("bbfffq")
            tgt = rng.choice(pool + pool + absent) if rng.random() < 0.9 else marks[0]
            cons.append((kind, tgt))
            if rng.random() < 0.15:
                cons.append((kind, tgt))
        prio = rng.choice(["N", "N", "N", "N", "B", "A"])
        items.append({"marks": marks, "val": i + 1, "prio": prio, "cons": cons})
    # bias towards acyclic graphs half of the time: orient constraints along item index
    if rng.random() < 0.5:
        firstidx = {}
        for i, it in enumerate(items):
            for m in it["marks"]:
                firstidx.setdefault(m, []).append(i)
        for i, it in enumerate(items):
            new = []
            for kind, tgt in it["cons"]:
                hs = firstidx.get(tgt, [])
                if kind == "b" and any(h <= i for h in hs):
                    kind = "f" if all(h < i for h in hs) else "q"
                elif kind == "f" and any(h >= i for h in hs):
                    kind = "b" if all(h > i for h in hs) else "q"
                new.append((kind, tgt))
            it["cons"] = new
    return items


def script_of(items):
    ops = []
    for it in items:
        mods = []
        for m in it["marks"][1:]:
            mods.append("l%d" % m)
        for k, t in it["cons"]:
            mods.append("%s%d" % (k, t))
        if it["prio"] == "B":
            mods.append("B")
        elif it["prio"] == "A":
            mods.append("A")
        ops.append("a%d,%d" % (it["marks"][0], it["val"]) + "".join(":" + m for m in mods))
    return ops


def expected(items):
    """returns ('ok', [vals]) | ('panic', kind-set)"""
    n = len(items)
    holders = lambda m: [i for i in range(n) if m in items[i]["marks"]]
    # requirement check happens in rank order during graph construction; any missing -> Missing
    missing = any(k == "q" and not holders(t) for it in items for k, t in it["cons"])
    preds = [set() for _ in range(n)]
    for i, it in enumerate(items):
        for k, t in it["cons"]:
            if k == "f":
                for h in holders(t):
                    preds[i].add(h)
            elif k == "b":
                for h in holders(t):
                    preds[h].add(i)
    order = [i for i in range(n) if items[i]["prio"] == "B"] + [i for i in range(n) if items[i]["prio"] == "N"] + \
            [i for i in range(n) if items[i]["prio"] == "A"]
    placed = []
    cyclic = False
    for _ in range(n):
        nxt = None
        for i in order:
            if i not in placed and preds[i] <= set(placed):
                nxt = i
                break
        if nxt is None:
            cyclic = True
            break
        placed.append(nxt)
    if missing:
        return ("panic", "Missing", preds)
    if cyclic:
        return ("panic", "Cyclic", preds)
    return ("ok", [items[i]["val"] for i in placed], preds)


def cases(rng, tier, Case):
    n = 1200 if tier == "quick" else 40000
    res = []
    for _ in range(n):
        items = gen_items(rng)
        ops = script_of(items)
        tail = ["i", "i", "d"]
        res.append(Case("ruler " + ";".join(ops + tail) if ops else "ruler i;i;d", "graph", {"items": items}))
    # histories with remove / contains / add after use (Ruler as an object)
    for _ in range(n // 4):
        items = gen_items(rng)
        ops = script_of(items)
        k = rng.randrange(len(ops) + 1)
        marks = [1, 2, 3, 20]
        mid = ["i", rng.choice(["d", "c%d" % rng.choice(marks), "i"]), "r%d" % rng.choice(marks), "c%d" % rng.choice(marks), "i", "d"]
        res.append(Case("ruler " + ";".join(ops[:k] + mid + ops[k:] + ["i", "d"]), "history", {"items": None}))
    return res


def oracle(case, io, mo):
    if not io.startswith("ok"):
        return "ruler command did not return normally: " + io[:160]
    items = case.params.get("items")
    if items is None:
        return None      # history cases are decided by the correspondence with the model
    outs = io[3:].split(";") if len(io) > 3 else []
    if len(outs) != 3:
        return "unexpected output shape: " + io[:100]
    exp = expected(items)
    first, second, dbg = outs
    if first != second:
        return "iteration order differs between first and second use: %s vs %s" % (first, second)
    if exp[0] == "panic":
        if not first.startswith("iP"):
            return "expected a panic (%s) but got %s" % (exp[1], first)
        if first != "iP" + exp[1]:
            return "expected panic kind %s but got %s" % (exp[1], first)
        if not dbg.startswith("dP"):
            return "Debug must panic as well, got " + dbg
        return None
    if first.startswith("iP"):
        return "unexpected panic %s on a satisfiable rule set" % first
    got = [int(x) for x in first[2:-1].split(",")] if first != "i[]" else []
    n = len(items)
    if sorted(got) != list(range(1, n + 1)):
        return "order is not a permutation of the rules: %r" % got
    pos = {v: k for k, v in enumerate(got)}
    preds = exp[2]
    for i in range(n):
        for j in preds[i]:
            if pos[j + 1] > pos[i + 1]:
                return "constraint violated: rule %d must come before rule %d in %r" % (j + 1, i + 1, got)
    if got != exp[1]:
        return "order %r is not the canonical (greedy by rank) order %r" % (got, exp[1])
    want_dbg = "d[" + ",".join("(%d,%d)" % (v - 1, items[v - 1]["marks"][0]) for v in got) + "]"
    if dbg != want_dbg:
        return "Debug output %s differs from %s" % (dbg, want_dbg)
    return None


def project(o):
    return o


def nontrivial(case, io):
    items = case.params.get("items")
    if items is None:
        return True
    return len(items) >= 2 and any(it["cons"] for it in items)


def known_match(k, case, io, msg):
    return False


def extra_coverage(cases, impl, model):
    d = {"ok": 0, "Missing": 0, "Cyclic": 0}
    for c, io in zip(cases, impl):
        if c.params.get("items") is not None:
            if "iPMissing" in io:
                d["Missing"] += 1
            elif "iPCyclic" in io:
                d["Cyclic"] += 1
            else:
                d["ok"] += 1
    return {"outcomes": d}
