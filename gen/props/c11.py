# C11 -- code content is opaque and reproduced verbatim
import sys, os, re
sys.path.insert(0, os.path.dirname(os.path.dirname(os.path.abspath(__file__))))
from lib import hx, unhx
import mdgen
from parsecommon import project, fields, parse_tree, text_arg

COQ_TARGETS = ["props/C11.vo"]
RULE = ("payload texts T (markup look-alikes, fence runs shorter than the fence, entities, escapes, tabs, NUL, multi-byte, blank "
        "lines, leading/trailing spaces) placed (a) in a backtick or tilde fence longer than every run in T, (b) indented by four "
        "spaces with non-blank first and last line, (c) in a backtick span longer than every backtick run in T; each at top level, "
        "inside a block quote and inside a list item; oracle: CodeFence.content / CodeBlock.content / code-span text equal the "
        "payload (line endings normalised; for spans line endings -> spaces and one pair of padding spaces removed) and the HTML "
        "shows its escaped form; plus cutws/indent unit cases tying the tab-stop arithmetic to the model. Non-trivial = payload "
        "contains markup, a tab or a fence look-alike; distinct = distinct (payload, context).")
PIECES = ["~```", "`~~~", "~``", "`~~", "~````", "`~~~~", "*a*", "_b_", "`", "``", "```", "~~~", "~~", "&amp;", "&#65;", "\\*", "\\", "<b>", "</b>", "[x](y)", "# h", "- l", "> q", "1. o", "    ", "\t", "\t\t", " \t", "é", "𝄞", "\0", "a", "b c", "  ",
          "---", "===", "[r]: /u", "<!-- -->", "|", "$", "%", "xx", "@@@"]


def payload(rng, multiline):
    lines = []
    for _ in range(rng.choice([1, 1, 2, 3, 5]) if multiline else 1):
        n = rng.choice([0, 1, 2, 3, 5]) if multiline else rng.choice([1, 2, 3, 5])
        lines.append("".join(rng.choice(PIECES) + rng.choice(["", " ", ""]) for _ in range(n)))
    return "\n".join(lines)


def max_run(s, ch):
    return max([len(m) for m in re.findall(re.escape(ch) + "+", s)] + [0])


QP = ["> ", "> ", " > ", "> > ", "  > ", ">  > "]


def in_quote(d, pre="> "):
    return "\n".join(pre + l for l in d.split("\n"))


def in_item(d, rng=None):
    # continuation blocks of a list item: every line indented by the marker width; a blank line may be spelled with
    # blanks narrower than that width (seed C11-7)
    m = rng.choice(["- ", "- ", "1.  ", "10. ", "   * ", "-    "[:rng.choice([2, 3, 4, 5])]]) if rng else "- "
    w = len(m)
    # an ordered list whose numbers get a digit wider: the content column belongs to the item, not to the list (seed C11-9)
    if rng and rng.random() < 0.15:
        a, b = rng.choice([("9. ", "10. "), ("99) ", "100) "), ("9.  ", "10. "), ("8. ", "9. ")])
        m, w = a + "w\n" + b, len(b)

    def blank():
        return " " * rng.randrange(0, w) if rng and rng.random() < 0.6 else ""
    return m + "x\n\n" + "\n".join((" " * w + l) if l else blank() for l in d.split("\n"))


# block rules in another registration order (none of the payload contexts depends on it: every rule has its own
# indentation guard -- seed C11-8 removes the fence rule's)
CFGS = ["CsW", "CsW", "CsW", "nebmliatfcqhurHLpsW", "nebmliatHrfqhucLpsW", "nebmliatqfhucrHLpsW"]
LOOKALIKE = ["~~~", "~~~~ x", "```", "``` y", "- l", "# h", "1. o", "---", "<div>", "[r]: /u", "@@@", "***", "+ p", "    z", "=", "==="]


def cases(rng, tier, Case):
    res = []
    n = 700 if tier == "quick" else 40000
    for _ in range(n):
        ctx = rng.choice(["top", "top", "quote", "item"])
        qp = rng.choice(QP)
        wrapf = {"top": lambda d: d, "quote": (lambda d: in_quote(d, qp)), "item": (lambda d: in_item(d, rng))}[ctx]
        kind = rng.choice(["fence", "fence", "indent", "span", "spanlazy"])
        cfg = rng.choice(CFGS)
        if kind == "fence":
            t = payload(rng, True)
            m = rng.choice("`~")
            k = max(3, max_run(t, m) + 1) + rng.choice([0, 0, 1])
            info = rng.choice(["", "", "rust", " x y"])
            d = m * k + info + "\n" + t + "\n" + m * k
            want = t + "\n"
            if ctx != "top" and any(l.startswith("\t") is False and "\t" in l[:1] for l in t.split("\n")):
                continue
            res.append(Case("parse %s 100 TR %s" % (cfg, hx(wrapf(d))), "fence-" + ctx, {"kind": "CodeFence", "want": hx(want), "src": hx(t)}))
        elif kind == "indent":
            t = payload(rng, True)
            ls = t.split("\n")
            if not ls[0].strip(" \t") or not ls[-1].strip(" \t"):
                continue
            d = "\n".join(("    " + l) if l.strip(" \t") else l for l in ls)
            # blank lines inside keep whatever is beyond four columns; we use empty blank lines
            if any((not l.strip(" \t")) and l for l in ls):
                continue
            want = t + "\n"
            res.append(Case("parse %s 100 TR %s" % (cfg, hx(wrapf(d))), "indent-" + ctx, {"kind": "CodeBlock", "want": hx(want), "src": hx(t)}))
        elif kind == "spanlazy":
            # a span that runs over paragraph continuation lines indented by four or more columns whose text looks like a
            # block start (it is not one: too far indented); inside a quote the continuation lines are lazy (no marker)
            pieces = [rng.choice(["a", "b c", "*e*", "&amp;"])] + [rng.choice(LOOKALIKE) for _ in range(rng.choice([1, 1, 2, 3]))]
            k = max(max_run(x, "`") for x in pieces) + 1
            ind = [" " * (rng.choice([4, 4, 5, 7]) + (2 if ctx == "item" else 0)) for _ in pieces]
            first = "`" * k + " " + pieces[0]
            rest = [ind[i] + pieces[i] for i in range(1, len(pieces))]
            rest[-1] += " " + "`" * k
            if ctx == "quote":
                if qp.count(">") > 1:
                    qp = "> "          # a lazy line indented by 4+ ends a NESTED quote in this implementation (model agrees)
                d = qp + "q " + first + "\n" + "\n".join(rest)
            elif ctx == "item":
                d = "- q " + first + "\n" + "\n".join(rest)
            else:
                d = "q " + first + "\n" + "\n".join(rest)
            # the payload is everything between the padding spaces, indentation of the continuation lines included
            want = " ".join([pieces[0]] + [ind[i] + pieces[i] for i in range(1, len(pieces))])
            res.append(Case("parse %s 100 TR %s" % (cfg, hx(d)), "spanlazy-" + ctx, {"kind": "CodeInline", "want": hx(want), "src": hx(want)}))
        else:
            t = payload(rng, rng.random() < 0.3)
            if not t or not t.strip(" \n") or "\n\n" in t or t.startswith("\n") or t.endswith("\n"):
                continue
            if any(re.match(r"^\s*([-+*>#]|\d+[.)]|={1,}\s*$|-{1,}\s*$|```|~~~|<|\[r\]:|    |\t|@@@)", l) or not l.strip(" \t") for l in t.split("\n")[1:]):
                continue          # continuation lines that would end the paragraph
            if ctx != "top" and ("\n" in t or "\t" in t):
                continue
            k = max_run(t, "`") + 1
            # what precedes the span: plain text, an escaped backtick right before the opener, or an earlier
            # paragraph with an unmatched backtick run of the same length (closer caches must not leak)
            pre = rng.choice(["a ", "a ", "a ", "\\`", "x \\`", "q " + "`" * k + " w\n\na ", "o" + "`" * k + "c " + "`" * (k + 1) + "\n\nz "])
            if rng.random() < 0.04:
                # many look-ahead tokens earlier in the same paragraph: nothing the label scans count may leak (seed C11-10)
                nlab = rng.choice([101, 130, 260])
                pre = rng.choice(["[t](u) " * nlab, "[see " + ", ".join("#%d" % i for i in range(nlab)) + "] ", "[" * nlab + " ", "![i](s) " * nlab])
            d = pre + "`" * k + " " + t + " " + "`" * k
            want = t.replace("\n", " ")
            res.append(Case("parse %s 100 TR %s" % (cfg, hx(wrapf(d))), "span-" + ctx, {"kind": "CodeInline", "want": hx(want), "src": hx(t)}))
    # a span whose opener stands inside a bracketed label and whose payload holds the "](u)" that would close the link:
    # the span wins.  With an unmatched backtick run right before the "[" the look-ahead of the link rule asks the
    # code-span rule, which looks at the text node pushed before the look-ahead began (known finding F15).
    for t in ("](u) b", "x](u)", "] [y](u) z", "](<u>) *c*"):
        for k in (1, 2):
            for stale in (False, True):
                for lead in ("q ", "", "*e* "):
                    pre = lead + (("`" * (k + 1)) if stale else "x ") + "[a "
                    d = pre + "`" * k + t + "`" * k
                    res.append(Case("parse CsW 100 TR %s" % hx(d), "span-bracket", {"kind": "CodeInline", "want": hx(t), "src": hx(t), "stale": stale}))
    # unit cases for the tab-stop arithmetic
    for _ in range(300 if tier == "quick" else 20000):
        ws = "".join(rng.choice([" ", " ", "\t", "\t", ">", "é"]) for _ in range(rng.choice([0, 1, 2, 3, 5, 8])))
        res.append(Case("cutws %s %d" % (hx(ws), rng.choice([-1, 0, 1, 2, 3, 4, 5, 6, 8, 12])), "cutws", {"unit": 1, "src": hx(ws)}))
        line = ws + "x"
        res.append(Case("indent %s %d" % (hx(line), rng.randrange(len(ws.encode()) + 1) if all(ord(c) < 128 for c in ws) else 0), "indent", {"unit": 1, "src": hx(ws)}))
    return res


def oracle(case, io, mo):
    if not io.startswith("ok"):
        return "did not return normally: " + io[:120]
    p = case.params
    if "unit" in p:
        return None
    f = fields(io)
    nodes = parse_tree(f["tree"])
    want = unhx(p["want"])
    html = unhx(f["html"])
    esc = want.replace(b"&", b"&amp;").replace(b"<", b"&lt;").replace(b">", b"&gt;").replace(b'"', b"&quot;").replace(b"\0", "�".encode())
    if p["kind"] == "CodeInline" and case.tag.startswith("spanlazy"):
        # whether the blanks that start a continuation line belong to the payload depends on the container (kept at top
        # level, cut on a lazy line): compared with runs of spaces collapsed
        spans = [n for n in nodes if n.kind == "CodeInline"]
        sq = lambda b: re.sub(rb" +", b" ", b)
        if len(spans) != 1 or len(spans[0].children) != 1 or sq(text_arg(spans[0].children[0])) != sq(want):
            got = [text_arg(c) for s in spans for c in s.children]
            return "code span content %r differs from the payload %r" % (got[:2], want[:60])
        return None
    if p["kind"] == "CodeInline":
        spans = [n for n in nodes if n.kind == "CodeInline"]
        if len(spans) != 1 or len(spans[0].children) != 1 or text_arg(spans[0].children[0]) != want:
            got = [text_arg(c) for s in spans for c in s.children]
            if p.get("stale") and not spans and any(n.kind == "Link" for n in nodes):
                return "STALEOPEN the link rule's look-ahead does not see the code span %r after an unmatched backtick run" % want[:60]
            return "code span content %r differs from the payload %r" % (got[:2], want[:60])
        if b"<code>" + esc + b"</code>" not in html:
            return "code span payload does not reappear escaped in the HTML"
        return None
    blocks = [n for n in nodes if n.kind == p["kind"]]
    idx = 3 if p["kind"] == "CodeFence" else 0
    if len(blocks) != 1 or text_arg(blocks[0], idx) != want:
        got = [text_arg(b, idx) for b in blocks]
        return "%s content %r differs from the payload %r" % (p["kind"], got[:2], want[:60])
    if esc + b"</code></pre>" not in html:
        return "code payload does not reappear escaped in the HTML"
    return None


def nontrivial(case, io):
    s = unhx(case.params.get("src", "-"))
    return any(x in s for x in (b"*", b"`", b"~", b"&", b"\t", b"<", b"\\"))


def known_match(k, case, io, msg):
    return k.get("class") == "stale-trailing-lookahead" and msg.startswith("STALEOPEN ")
