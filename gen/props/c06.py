# C06 -- container prefixing changes neither interpretation nor source mapping of content
import sys, os
sys.path.insert(0, os.path.dirname(os.path.dirname(os.path.abspath(__file__))))
from lib import hx, unhx
import mdgen, corpus
from parsecommon import project, fields, parse_tree

COQ_TARGETS = ["props/C06.vo"]
RULE = ("for tab-free documents D (generated, spec inputs with tabs removed, mutations; LF line endings) three parses each: D, "
        "'> '-prefixed D, and D as continuation blocks of a loose list item; oracle: HTML of the quoted document = <blockquote> "
        "wrapper around HTML of D, HTML of the list document = ul/li wrapper around HTML of D, and the tree below the quote = tree "
        "of D with every range shifted by the inserted prefix bytes. Non-trivial = D has more than one line or a container; distinct = distinct D.")


def tabfree(d):
    return d.replace("\t", "  ").replace("\r\n", "\n").replace("\r", "\n").replace("\0", "0")


def quote_prefix(d):
    return "\n".join("> " + l for l in d.split("\n"))


def item_wrap(d):
    # every line is indented by the marker width; truly empty lines stay empty
    return "- x\n\n" + "\n".join(("  " + l) if l else l for l in d.split("\n"))


def cases(rng, tier, Case):
    res = []
    n = 800 if tier == "quick" else 40000
    docs = []
    for i, d in enumerate(corpus.spec_inputs()):
        if tier == "quick" and i % 6:
            continue
        docs.append(tabfree(d))
    for _ in range(n):
        docs.append(tabfree(mdgen.clean_utf8(mdgen.gen_doc(rng))))
    # documents one container short of a limit (seed C06-11: a nesting level leaked per empty item shows only when the added
    # container uses up the last level) and lists whose tightness must not depend on what precedes them (seed C06-12)
    for k in (30, 50, 98, 99, 100) if tier == "quick" else (10, 30, 50, 90, 97, 98, 99, 100, 101, 150):
        docs += ["-\n\n" * k + "tail *e*", "- a\n\n" * k + "tail", "1.\n\n" * k + "# h", ">\n\n" * k + "tail", "- x\n" * k + "\ntail", "-\n" * k + "\ntail",
                 "> " * min(k, 98) + "q\n\ntail", "- " * min(k, 98) + "i\n\ntail"]
    docs += ["-\n- a", "1.\n2. a", "# h\n-\n- a", "p\n\n-\n- a\n- b", "-\n- a\n\n- b", "-\n\n- a", "- a\n-\n- b", "# h\n1.\n2. a\n3. b", "-\n  - a\n  - b", "***\n-\n- a",
             "-\n- a\n\np\n\n-\n- b"]
    for d in docs:
        # line separators other than LF would change the prefixing relation itself
        d = d.replace("\x0b", " ").replace("\x0c", " ").replace(" ", " ").replace("\u0085", " ")
        if d.endswith("\n"):
            d = d.rstrip("\n")
        cfg = rng.choice(["CsW", "CsW", "Cs"])
        gid = hx(d)
        res.append(Case("parse %s 100 TR %s" % (cfg, hx(d)), "base", {"g": gid, "role": "base", "src": hx(d), "cfg": cfg}))
        res.append(Case("parse %s 100 TR %s" % (cfg, hx(quote_prefix(d))), "quote", {"g": gid, "role": "quote", "src": hx(d), "cfg": cfg}))
        if d.strip(" \n"):
            res.append(Case("parse %s 100 TR %s" % (cfg, hx(item_wrap(d))), "item", {"g": gid, "role": "item", "src": hx(d), "cfg": cfg}))
    return res


_base = {}


def shift_pos(lines_start, p):
    """position p in D -> position in quote_prefix(D): +2 for every line start at or before p"""
    import bisect
    k = bisect.bisect_right(lines_start, p)
    return p + 2 * k


def oracle(case, io, mo):
    if not io.startswith("ok"):
        return "did not return normally: " + io[:120]
    f = fields(io)
    p = case.params
    key = (p["g"], p["cfg"])
    if p["role"] == "base":
        _base[key] = f
        return None
    b = _base.get(key)
    if b is None:
        return None
    bh = unhx(b["html"])
    h = unhx(f["html"])
    if p["role"] == "quote":
        want = b"<blockquote>\n" + bh + b"</blockquote>\n"
        if h != want:
            return "HTML of the '> '-prefixed document is not the blockquote wrapper around the HTML of D"
        # tree: below the quote = tree of D shifted
        src = unhx(p["src"])
        starts = [0]
        for i, c in enumerate(src):
            if c == 10:
                starts.append(i + 1)
        tb = parse_tree(b["tree"])
        tq = parse_tree(f["tree"])
        if len(tq) != len(tb) + 1 or tq[1].kind != "Blockquote":
            return "tree of the quoted document is not Root > Blockquote > (tree of D)"
        for nb, nq in zip(tb[1:], tq[2:]):
            if nb.kind != nq.kind or nb.args != nq.args or nb.depth + 1 != nq.depth:
                # inline-root-independent fields only; CodeFence/CodeBlock contents are equal as well
                return "node %s%r of D corresponds to %s%r under the quote" % (nb.kind, nb.args[:1], nq.kind, nq.args[:1])
            if nb.start is not None:
                ws, we = shift_pos(starts, nb.start), shift_pos(starts, nb.end) if nb.end > nb.start else shift_pos(starts, nb.start)
                # an end position sitting exactly on a line start belongs to the previous line's end + terminator
                if (nq.start, nq.end) != (ws, we):
                    return "range of %s is [%d,%d) in D but [%d,%d) under the quote (expected a shift by the inserted prefix bytes)" % (nb.kind, nb.start, nb.end, nq.start, nq.end)
        return None
    if p["role"] == "item":
        want = b"<ul>\n<li>\n<p>x</p>\n" + bh + b"</li>\n</ul>\n"
        if h != want:
            return "HTML of D placed in a loose list item is not the list wrapper around the HTML of D"
    return None


def nontrivial(case, io):
    return b"\n" in unhx(case.params["src"])


def known_match(k, case, io, msg):
    return False
