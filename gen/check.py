#!/usr/bin/env python3
# bin/check <Cxx> [--tier quick|thorough] [--replay file]   (DESIGN.md section 5)
import os, sys, json, time, random, importlib, argparse, traceback
sys.path.insert(0, os.path.dirname(os.path.abspath(__file__)))
import lib
from lib import BuildError


class Case:
    __slots__ = ("line", "tag", "params", "compare")

    def __init__(self, line, tag="", params=None, compare=True):
        self.line = line
        self.tag = tag
        self.params = params or {}
        self.compare = compare


def shrink_bytes(data, still_fails, budget=400):
    """delta debugging on a byte string"""
    data = bytes(data)
    n = 2
    steps = 0
    while len(data) >= 1 and steps < budget:
        chunk = max(1, len(data) // n)
        reduced = False
        i = 0
        while i < len(data) and steps < budget:
            cand = data[:i] + data[i + chunk:]
            # keep UTF-8 validity
            try:
                cand.decode("utf-8")
                ok = True
            except UnicodeDecodeError:
                ok = False
            steps += 1
            if ok and cand != data and still_fails(cand):
                data = cand
                reduced = True
            else:
                i += chunk
        if not reduced:
            if chunk == 1:
                break
            n = min(len(data), n * 2) if len(data) else 1
    return data


def main():
    ap = argparse.ArgumentParser()
    ap.add_argument("prop")
    ap.add_argument("--tier", default=os.environ.get("VERIF_TIER", "quick"))
    ap.add_argument("--replay", default=None)
    args = ap.parse_args()
    prop = args.prop
    tier = args.tier if args.tier in ("quick", "thorough") else "quick"
    try:
        seed = int(os.environ.get("VERIF_SEED", "0"))
    except ValueError:
        seed = 0
    t0 = time.time()
    mod = importlib.import_module("props." + prop.lower())
    rng = random.Random("%s-%d-%s" % (prop, seed, tier))
    out_lines = []
    violations = []          # (replay path, suffix)
    known_hit = {}
    notes = []

    def say(s):
        print(s, flush=True)

    # ---- 1. builds -------------------------------------------------------
    proof_broken = None
    harness_release = None
    try:
        hb = lib.build_harness("debug")
        second_label = "release"
        if getattr(mod, "SECOND_BUILD", None):
            # a second build of the implementation on which every case and the oracle run as well (C02: opt-level 0,
            # where no recursion is turned into a loop by the optimiser)
            second_label = mod.SECOND_BUILD
            harness_release = lib.build_harness(mod.SECOND_BUILD)
        elif getattr(mod, "RELEASE_TOO", False) and tier == "thorough":
            harness_release = lib.build_harness("release")
    except BuildError as e:
        path = lib.write_replay(prop, {"kind": "build-failure", "what": e.what, "log": e.log[-3000:]})
        say("VIOLATION property=%s replay=%s no-failing-input-found" % (prop, path))
        lib.write_evidence(prop, tier, seed, {"obligations": 1, "discharged": 0, "checker_cmd": "cargo build",
                           "trusted_base": lib.TRUSTED_BASE, "explanation": "harness does not build against /repo"},
                           time.time() - t0, 1)
        return 1
    tables_hash = None
    try:
        tables_hash = lib.gen_tables(hb)
    except BuildError as e:
        notes.append("dump-tables failed: " + e.log[-300:])
    try:
        lib.build_coq(mod.COQ_TARGETS)
    except BuildError as e:
        proof_broken = e.log[-3000:]
    drv = None
    try:
        drv = lib.build_driver()
    except BuildError as e:
        if proof_broken is None:
            proof_broken = e.log[-3000:]
        notes.append("driver build failed")

    # ---- 2. proof audit --------------------------------------------------
    if proof_broken is None:
        au = lib.audit(prop)
    else:
        names = lib.theorem_names(prop)
        au = dict(obligations=len(names), discharged=0, axioms=[], problems=["coq build failed"], names=names)
    checker_cmd = "make -C coq -j16 " + " ".join(mod.COQ_TARGETS) + " && coqc work/audit_%s.v (Check + Print Assumptions vs coq/statements.lock)" % prop
    if tier == "thorough" and proof_broken is None and os.environ.get("VERIF_NO_COQCHK") != "1":
        try:
            rc, out = lib.sh(["coqchk", "-silent", "-o", "-Q", lib.COQ, "MdIt", "MdIt.props." + prop], cwd=lib.COQ, timeout=3000, check=False)
            notes.append("coqchk rc=%d: %s" % (rc, " ".join(out.split())[-600:]))
            checker_cmd += " && coqchk -silent -o MdIt.props." + prop
            if rc != 0:
                au["problems"].append("coqchk failed")
                au["discharged"] = 0
        except Exception as e:
            notes.append("coqchk did not run: %r" % e)

    # ---- 3. cases ----------------------------------------------------------
    if args.replay:
        rp = json.load(open(args.replay))
        cases = [Case(c["line"], c.get("tag", "replay"), c.get("params"), c.get("compare", True)) for c in rp.get("cases", [])]
    else:
        cases = mod.cases(rng, tier, Case)
        # corpus first
        cpath = os.path.join(lib.VERIF, "corpus", prop + ".jsonl")
        if os.path.exists(cpath):
            extra = []
            for l in open(cpath):
                l = l.strip()
                if l:
                    c = json.loads(l)
                    extra.append(Case(c["line"], c.get("tag", "corpus"), c.get("params"), c.get("compare", True)))
            cases = extra + cases
    lines = [c.line for c in cases]
    impl = lib.run_proto(hb, lines)
    impl_rel = lib.run_proto(harness_release, lines) if harness_release else None
    def mline(c):
        # the model may be asked the same question in its own words (e.g. a safe set given by its members)
        return c.params.get("_model_line", c.line)

    def run_model(cs):
        """the model runs only on the cases that are compared (big adversarial inputs are implementation-only)"""
        if not drv:
            return [None] * len(cs)
        idx = [i for i, c in enumerate(cs) if c.compare]
        outs = lib.run_proto(drv, [mline(cs[i]) for i in idx], timeout=300)
        res = [None] * len(cs)
        for i, o in zip(idx, outs):
            res[i] = o
        return res
    model = run_model(cases)
    if hasattr(mod, "followup") and not args.replay:
        extra = []
        for i, c in enumerate(cases):
            extra.extend(mod.followup(c, impl[i], Case))
        if extra:
            elines = [c.line for c in extra]
            cases += extra
            lines += elines
            impl += lib.run_proto(hb, elines)
            if impl_rel is not None:
                impl_rel += lib.run_proto(harness_release, elines)
            model += run_model(extra)

    # ---- 4. correspondence + oracle --------------------------------------
    known = [k for k in lib.load_known() if k.get("property") == prop and k.get("status") == "open"]
    disagreements = []
    failures = []
    harness_errors = 0
    for i, c in enumerate(cases):
        io = impl[i] if i < len(impl) else "abort missing"
        mo = model[i] if i < len(model) else None
        if io.startswith("error") or "HARNESS" in io[:20]:
            harness_errors += 1
        msg = None
        try:
            msg = mod.oracle(c, io, mo)
        except Exception as e:
            msg = "oracle exception %r" % (e,)
        if impl_rel is not None and msg is None:
            ro = impl_rel[i]
            rmsg = mod.oracle(c, ro, mo)
            if rmsg is not None:
                msg = second_label + " build: " + rmsg
            elif getattr(mod, "RELEASE_SAME", True) and ro != io:
                msg = "debug and release builds disagree"
        if msg is not None:
            failures.append((i, msg))
        if c.compare and mo is not None and getattr(mod, "COMPARE", True):
            a, b = mod.project(io), mod.project(mo)
            if a != b:
                disagreements.append(i)

    def match_known(i, msg):
        for k in known:
            try:
                if mod.known_match(k, cases[i], impl[i], msg):
                    return k
            except Exception:
                pass
        return None

    new_failures = []
    for i, msg in failures:
        k = match_known(i, msg)
        if k is not None:
            known_hit.setdefault(k["id"], []).append(i)
        else:
            new_failures.append((i, msg))
    new_disagreements = []
    for i in disagreements:
        k = match_known(i, "disagreement")
        if k is not None:
            known_hit.setdefault(k["id"], []).append(i)
        else:
            new_disagreements.append(i)

    for k in known:
        if k["id"] in known_hit:
            say("KNOWN-FINDING: property=%s %s (%s; %d case(s) this run)" % (prop, k["id"], k["what"], len(known_hit[k["id"]])))
        else:
            say("KNOWN-FINDING: property=%s %s (%s)" % (prop, k["id"], k["what"]))

    # vm_compute cross-check of extraction on a sample
    xc_n, xc_bad = 0, []
    if drv and proof_broken is None and not args.replay:
        idx = [i for i in range(len(cases)) if cases[i].compare and len(lines[i]) < 600]
        rng2 = random.Random(seed + 1)
        rng2.shuffle(idx)
        idx = idx[: (40 if tier == "quick" else 200)]
        xc_n = len(idx)
        nbad, xc_bad = lib.coq_crosscheck([mline(cases[i]) for i in idx], [model[i] for i in idx], prop)
        if nbad:
            notes.append("vm_compute/extraction mismatch: %r" % xc_bad[:3])

    def case_obj(i):
        c = cases[i]
        return {"line": c.line, "tag": c.tag, "params": c.params, "compare": c.compare,
                "impl": impl[i], "model": model[i] if i < len(model) else None}

    # ---- 5. decide --------------------------------------------------------
    exit_code = 0
    if new_failures:
        # concrete failing inputs on the implementation: report the first (shrunk if possible)
        i, msg = new_failures[0]
        obj = {"kind": "property-failure", "property": prop, "failure": msg, "cases": [case_obj(i)],
               "other_failures": len(new_failures) - 1}
        if hasattr(mod, "shrink"):
            try:
                small = mod.shrink(cases[i], hb, drv, Case, lib)
                if small is not None:
                    obj["shrunk"] = small
            except Exception as e:
                obj["shrink_error"] = repr(e)
        path = lib.write_replay(prop, obj)
        say("VIOLATION property=%s replay=%s" % (prop, path))
        violations.append(path)
        exit_code = 1
    elif new_disagreements or au["problems"] or xc_bad or proof_broken is not None:
        # a proof obligation or the correspondence no longer checks; no failing input was found
        what = []
        if proof_broken is not None:
            what.append("coq build of %s failed" % " ".join(mod.COQ_TARGETS))
        what += au["problems"]
        if new_disagreements:
            what.append("correspondence: model and implementation disagree on %d case(s)" % len(new_disagreements))
        if xc_bad:
            what.append("extraction cross-check failed")
        obj = {"kind": "obligation-broken", "property": prop, "what": what,
               "no_longer_checks": (mod.COQ_TARGETS if (proof_broken or au["problems"]) else []) +
                                   (["correspondence command(s): " + ",".join(sorted(set(cases[i].line.split(" ")[0] for i in new_disagreements)))] if new_disagreements else []),
               "cases": [case_obj(i) for i in new_disagreements[:5]],
               "coq_log": proof_broken}
        path = lib.write_replay(prop, obj)
        say("VIOLATION property=%s replay=%s no-failing-input-found" % (prop, path))
        violations.append(path)
        exit_code = 1

    # ---- 6. evidence -------------------------------------------------------
    nontrivial = set()
    tags = {}
    for i, c in enumerate(cases):
        tags[c.tag] = tags.get(c.tag, 0) + 1
        if mod.nontrivial(c, impl[i]):
            nontrivial.add(c.line)
    samples = [case_obj(i) for i in range(0, len(cases), max(1, len(cases) // 5))][:6]
    for s in samples:
        for k in ("impl", "model", "line"):
            if s.get(k) and len(s[k]) > 400:
                s[k] = s[k][:400] + "..."
    cov = {
        "obligations": au["obligations"],
        "discharged": au["discharged"] if proof_broken is None else 0,
        "checker_cmd": checker_cmd,
        "trusted_base": lib.TRUSTED_BASE + getattr(mod, "TRUSTED_EXTRA", []),
        "theorems": au.get("names", []),
        "axioms_reported": au.get("axioms", []),
        "audit_problems": au["problems"],
        "partial": getattr(mod, "PARTIAL", []),
        "evaluations": len(cases),
        "distinct_nontrivial": len(nontrivial),
        "rule": mod.RULE,
        "samples": samples,
        "correspondence": {"compared": sum(1 for c in cases if c.compare) if drv else 0,
                           "disagreements": len(disagreements), "disagreements_new": len(new_disagreements),
                           "vm_compute_crosschecked": xc_n, "vm_compute_mismatches": len(xc_bad),
                           "release_build_too": impl_rel is not None},
        "oracle": {"cases": len(cases), "failures": len(failures), "failures_new": len(new_failures),
                   "known_findings_matched": {k: len(v) for k, v in known_hit.items()}},
        "distribution": dict(sorted(tags.items())),
        "harness_errors": harness_errors,
        "tables_sha": tables_hash,
        "notes": notes,
    }
    if hasattr(mod, "extra_coverage"):
        try:
            cov.update(mod.extra_coverage(cases, impl, model))
        except Exception as e:
            cov["extra_coverage_error"] = repr(e)
    level = "proof"
    try:
        man = json.load(open(os.path.join(lib.VERIF, "MANIFEST.json")))
        for c in man.get("checks", []):
            if c.get("property_id") == prop:
                level = c["level_claimed"]["category"]
    except Exception:
        pass
    lib.write_evidence(prop, tier, seed, cov, time.time() - t0, len(violations), getattr(mod, "ASSUMPTIONS", []), level=level)
    if exit_code == 0:
        say("OK property=%s tier=%s cases=%d obligations=%d/%d wall=%.1fs" %
            (prop, tier, len(cases), cov["discharged"], cov["obligations"], time.time() - t0))
    return exit_code


if __name__ == "__main__":
    try:
        sys.exit(main())
    except SystemExit:
        raise
    except Exception:
        traceback.print_exc()
        sys.exit(2)
