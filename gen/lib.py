# Orchestration shared by all property checks (DESIGN.md sections 4 and 5).
import os, sys, json, time, subprocess, hashlib, random, re, shutil
from concurrent.futures import ThreadPoolExecutor

VERIF = os.path.dirname(os.path.dirname(os.path.abspath(__file__)))
REPO = os.environ.get("VERIF_REPO", "/repo")
COQ = os.path.join(VERIF, "coq")
WORK = os.path.join(VERIF, "work")
HARNESS = os.path.join(VERIF, "harness")
DRIVER = os.path.join(VERIF, "driver")
NPROC = int(os.environ.get("VERIF_NPROC", "16"))
GUARD = "markdown_it_verif"

ENV = dict(os.environ)
ENV.update({"CARGO_NET_OFFLINE": "true", "RUSTFLAGS": "--cfg " + GUARD,
            "CARGO_TARGET_DIR": os.path.join(HARNESS, "target")})


class BuildError(Exception):
    def __init__(self, what, log):
        super().__init__(what)
        self.what = what
        self.log = log


def sh(cmd, cwd=None, timeout=1800, env=None, check=True):
    p = subprocess.run(cmd, cwd=cwd, shell=isinstance(cmd, str), env=env or ENV,
                       stdout=subprocess.PIPE, stderr=subprocess.STDOUT, timeout=timeout)
    out = p.stdout.decode("utf-8", "replace")
    if check and p.returncode != 0:
        raise BuildError(str(cmd), out)
    return p.returncode, out


def hx(s):
    if isinstance(s, str):
        s = s.encode("utf-8")
    return s.hex() if s else "-"


def unhx(s):
    return b"" if s in ("-", "") else bytes.fromhex(s)


# ---------------------------------------------------------------------------
# builds

def build_harness(profile="debug"):
    lock = os.path.join(HARNESS, "Cargo.lock")
    src = os.path.join(REPO, "Cargo.lock")
    if os.path.exists(src):
        if not os.path.exists(lock) or open(lock, "rb").read() != open(src, "rb").read():
            shutil.copyfile(src, lock)
    cmd = ["cargo", "build", "--offline", "--quiet"] + (["--release"] if profile == "release" else ["--profile", profile] if profile != "debug" else [])
    rc, out = sh(cmd, cwd=HARNESS, timeout=1800, check=False)
    if rc != 0 and "Cargo.lock" in out:
        # lock file of /repo does not cover the harness' own deps: let cargo extend it offline
        rc, out = sh(cmd, cwd=HARNESS, timeout=1800, check=False)
    if rc != 0:
        raise BuildError("cargo build (harness against %s)" % REPO, out)
    return os.path.join(HARNESS, "target", profile, "mdoracle")


def gen_tables(harness_bin):
    """Regenerate coq/gen/Tables.v from the implementation (DESIGN 3.7)."""
    import gentables
    rc, out = sh([harness_bin, "dump-tables"], timeout=300)
    text = gentables.render(out)
    path = os.path.join(COQ, "gen", "Tables.v")
    old = open(path).read() if os.path.exists(path) else None
    if old != text:
        os.makedirs(os.path.dirname(path), exist_ok=True)
        open(path, "w").write(text)
    return hashlib.sha256(text.encode()).hexdigest()[:16]


def coq_makefile():
    mk = os.path.join(COQ, "Makefile")
    proj = os.path.join(COQ, "_CoqProject")
    if not os.path.exists(mk) or os.path.getmtime(mk) < os.path.getmtime(proj):
        sh("coq_makefile -f _CoqProject -o Makefile", cwd=COQ, timeout=120)


def build_coq(targets, timeout=3000):
    """make the given .vo targets (full .vo build, never -vos)."""
    coq_makefile()
    rc, out = sh(["make", "-j%d" % NPROC] + list(targets), cwd=COQ, timeout=timeout, check=False)
    if rc != 0:
        raise BuildError("make " + " ".join(targets), out)
    return out


def build_driver():
    build_coq(["extract/Extract.vo"])
    ml = os.path.join(DRIVER, "model.ml")
    exe = os.path.join(DRIVER, "mdmodel")
    drv = os.path.join(DRIVER, "driver.ml")
    if (not os.path.exists(exe) or os.path.getmtime(exe) < os.path.getmtime(ml)
            or os.path.getmtime(exe) < os.path.getmtime(drv)):
        rc, out = sh("ocamlfind ocamlopt -w -a -package str model.mli model.ml driver.ml -o mdmodel",
                     cwd=DRIVER, timeout=900, check=False)
        if rc != 0:
            raise BuildError("ocamlopt (driver)", out)
    return exe


# ---------------------------------------------------------------------------
# running the two executables

LINE_TIMEOUT = float(os.environ.get("VERIF_LINE_TIMEOUT", "20"))
MAX_HANGS_PER_CHUNK = 1


def _run_chunk(binary, lines, timeout):
    """Feed lines to one process and read one answer per line.  A process that dies is restarted after the line
    it was on ("abort ..."); a line that produces no answer within LINE_TIMEOUT seconds is a hang: the process
    is killed, the line is marked "hang timeout" and the rest continues in a fresh process (after
    MAX_HANGS_PER_CHUNK hangs the remaining lines of the chunk are marked "skipped after hangs")."""
    import select, threading
    results = []
    i = 0
    hangs = 0
    t_end = time.time() + timeout
    while i < len(lines):
        if hangs >= MAX_HANGS_PER_CHUNK or time.time() > t_end:
            results.extend(["skipped after hangs"] * (len(lines) - i))
            break
        chunk = lines[i:]
        p = subprocess.Popen([binary], stdin=subprocess.PIPE, stdout=subprocess.PIPE, stderr=subprocess.DEVNULL, env=ENV)

        def feed(proc=p, data=("\n".join(chunk) + "\n").encode()):
            try:
                proc.stdin.write(data)
                proc.stdin.close()
            except Exception:
                pass
        th = threading.Thread(target=feed, daemon=True)
        th.start()
        fd = p.stdout.fileno()
        buf = b""
        got = 0
        status = None
        last = time.time()
        while got < len(chunk):
            r, _, _ = select.select([fd], [], [], 1.0)
            if r:
                data = os.read(fd, 1 << 16)
                if not data:
                    break
                buf += data
                while b"\n" in buf and got < len(chunk):
                    line, buf = buf.split(b"\n", 1)
                    results.append(line.decode("utf-8", "replace"))
                    got += 1
                    last = time.time()
            elif time.time() - last > min(LINE_TIMEOUT, timeout / 6.0):
                status = "hang timeout"
                hangs += 1
                break
        if got == len(chunk) and status is None:
            # every answer is in: let the process see end of input and exit by itself (profile data of a
            # coverage build is written at exit)
            try:
                p.wait(timeout=5)
            except Exception:
                pass
        try:
            p.kill()
        except Exception:
            pass
        try:
            rc = p.wait(timeout=10)
        except Exception:
            rc = -9
        i += got
        if i < len(lines) and got < len(chunk):
            results.append(status or ("abort rc=%d" % rc if rc not in (0, -9) else "abort eof"))
            i += 1
    return results


def run_proto(binary, lines, timeout=600, nproc=None):
    nproc = nproc or NPROC
    if not lines:
        return []
    n = max(1, min(nproc, (len(lines) + 7) // 8))
    size = (len(lines) + n - 1) // n
    chunks = [lines[k:k + size] for k in range(0, len(lines), size)]
    with ThreadPoolExecutor(max_workers=n) as ex:
        parts = list(ex.map(lambda c: _run_chunk(binary, c, timeout), chunks))
    res = []
    for p in parts:
        res.extend(p)
    return [r.rstrip() for r in res]


def coq_crosscheck(lines, model_outs, name):
    """Evaluate dispatch inside Coq (vm_compute) on the given lines and compare with the
    extracted run; returns number of mismatches (and list)."""
    if not lines:
        return 0, []
    os.makedirs(WORK, exist_ok=True)
    path = os.path.join(WORK, "cases_%s.v" % name)

    def lit(b):
        return "[" + ";".join(str(x) for x in b) + "]%N"
    with open(path, "w") as f:
        f.write("From MdIt Require Import Prims Dispatch.\nLocal Open Scope N_scope.\n")
        for l, o in zip(lines, model_outs):
            f.write("Eval vm_compute in (list_eqb (dispatch %s) %s).\n" % (lit(l.encode()), lit(o.encode())))
    rc, out = sh(["coqc", "-noglob", "-Q", COQ, "MdIt", path], cwd=WORK, timeout=900, check=False)
    if rc != 0:
        return len(lines), ["coqc failed: " + out[-400:]]
    vals = re.findall(r"=\s*(true|false)", out)
    bad = [lines[i] for i, v in enumerate(vals) if v != "true"]
    if len(vals) != len(lines):
        bad.append("count mismatch %d/%d" % (len(vals), len(lines)))
    return len(bad), bad


# ---------------------------------------------------------------------------
# proof audit

FORBIDDEN = re.compile(r"\b(Admitted|admit|Axiom|Axioms|Parameter|Parameters|Conjecture|Admit Obligations)\b|"
                       r"Unset\s+Guard|Unset\s+Positivity|Unset\s+Universe|bypass_check|type-in-type|impredicative-set")


def strip_comments(text):
    out = []
    depth = 0
    i = 0
    while i < len(text):
        if text.startswith("(*", i):
            depth += 1
            i += 2
        elif text.startswith("*)", i) and depth > 0:
            depth -= 1
            i += 2
        else:
            if depth == 0:
                out.append(text[i])
            i += 1
    return "".join(out)


def forbidden_scan():
    hits = []
    for root, _, files in os.walk(COQ):
        for fn in files:
            if not fn.endswith(".v"):
                continue
            p = os.path.join(root, fn)
            txt = strip_comments(open(p).read())
            # strings may contain anything
            txt_nostr = re.sub(r'"[^"]*"', '""', txt)
            for m in FORBIDDEN.finditer(txt_nostr):
                hits.append("%s: %s" % (os.path.relpath(p, VERIF), m.group(0)))
            # Variable / Hypothesis only inside sections
            depth = 0
            for line in txt_nostr.split("\n"):
                s = line.strip()
                if re.match(r"Section\s+\w+", s):
                    depth += 1
                elif re.match(r"End\s+\w+", s) and depth > 0:
                    depth -= 1
                elif depth == 0 and re.match(r"(Variable|Variables|Hypothesis|Hypotheses|Context)\b", s):
                    hits.append("%s: %s outside section" % (os.path.relpath(p, VERIF), s[:40]))
    return hits


def theorem_names(prop):
    txt = strip_comments(open(os.path.join(COQ, "props", prop + ".v")).read())
    return re.findall(r"^\s*(?:Theorem|Example|Lemma|Corollary)\s+(\w+)", txt, re.M)


ALLOWED_AXIOMS = set()   # none needed so far; extend with stdlib axioms by name if a proof uses them


def audit(prop):
    """Returns dict(obligations, discharged, axioms, problems)."""
    names = theorem_names(prop)
    problems = []
    os.makedirs(WORK, exist_ok=True)
    path = os.path.join(WORK, "audit_%s.v" % prop)
    with open(path, "w") as f:
        f.write("From MdIt Require Import %s.\n" % prop)
        for n in names:
            f.write('Check %s.\nPrint Assumptions %s.\n' % (n, n))
    rc, out = sh(["coqc", "-noglob", "-Q", COQ, "MdIt", path], cwd=WORK, timeout=900, check=False)
    if rc != 0:
        return dict(obligations=len(names), discharged=0, axioms=[], problems=["audit coqc failed: " + out[-500:]],
                    names=names)
    # statements
    norm = re.sub(r"\s+", " ", out)
    stmts = {}
    for n in names:
        m = re.search(r"(?:^| )%s : (.*?)(?= Closed under the global context| Axioms:)" % re.escape(n), norm)
        stmts[n] = m.group(1).strip() if m else None
    lock_path = os.path.join(COQ, "statements.lock")
    lock = json.load(open(lock_path)) if os.path.exists(lock_path) else {}
    for n in names:
        if stmts[n] is None:
            problems.append("statement of %s not found in audit output" % n)
        elif lock.get(prop, {}).get(n) != stmts[n]:
            problems.append("statement of %s differs from statements.lock" % n)
    for n in lock.get(prop, {}):
        if n not in names:
            problems.append("theorem %s listed in statements.lock is missing" % n)
    closed = norm.count("Closed under the global context")
    axioms = sorted(set(re.findall(r"Axioms: (.*?)(?= \w+ : |$)", norm)))
    ax_names = set()
    for a in axioms:
        for m in re.finditer(r"([\w.]+) :", a):
            ax_names.add(m.group(1))
    bad_ax = [a for a in ax_names if a not in ALLOWED_AXIOMS]
    if bad_ax:
        problems.append("axioms not in allow-list: " + ", ".join(sorted(bad_ax)))
    hits = forbidden_scan()
    if hits:
        problems.append("forbidden tokens: " + "; ".join(hits[:5]))
    discharged = len(names) if not problems else max(0, closed if not bad_ax else 0)
    return dict(obligations=len(names), discharged=min(discharged, len(names)), axioms=sorted(ax_names),
                problems=problems, names=names, statements=stmts)


def update_lock(props):
    lock_path = os.path.join(COQ, "statements.lock")
    lock = json.load(open(lock_path)) if os.path.exists(lock_path) else {}
    for p in props:
        if p in lock:
            del lock[p]
        a = audit(p)
        lock[p] = a["statements"]
    json.dump(lock, open(lock_path, "w"), indent=1, sort_keys=True)


# ---------------------------------------------------------------------------
# known findings

def load_known():
    p = os.path.join(VERIF, "known_findings.json")
    if not os.path.exists(p):
        return []
    return json.load(open(p)).get("findings", [])


# ---------------------------------------------------------------------------
# evidence / verdict

TRUSTED_BASE = [
    "Coq 8.16.1 kernel (coqc, vm_compute used; native_compute not used); coqchk in the thorough tier",
    "axioms: none declared; Print Assumptions of every property theorem must be 'Closed under the global context'",
    "hand-written Gallina model of the Rust code (coq/model/*.v): modelled, not verified; tied to /repo by the correspondence check only",
    "correspondence check: Rust harness mdoracle (catch_unwind, tree dumper), Python generators/diff, line protocol",
    "extraction: ExtrOcamlBasic only (bool, option, unit, list, prod, sumbool, sumor); N/Z/positive stay inductive; OCaml 4.13 ocamlopt; driver.ml string<->byte-list glue; cross-checked by vm_compute on a sample",
    "generated tables (coq/gen/Tables.v) dumped from the implementation's own Unicode/entity data on every run",
    "Rust std (str/char/UTF-8, Vec, HashMap as finite map, TypeId injectivity), regex, html-escape, entities, unicode-general-category crates",
]


def write_evidence(prop, tier, seed, cov, wall, violations, assumptions=None, level="proof"):
    os.makedirs(os.path.join(VERIF, "evidence"), exist_ok=True)
    ev = {
        "property_id": prop, "tier": tier, "seed": seed, "level": level,
        "coverage": cov, "assumptions": assumptions or [], "wall_s": round(wall, 2), "violations": violations,
    }
    tmp = os.path.join(VERIF, "evidence", prop + ".json.tmp")
    json.dump(ev, open(tmp, "w"), indent=1, ensure_ascii=True)
    os.replace(tmp, os.path.join(VERIF, "evidence", prop + ".json"))


def write_replay(prop, obj):
    d = os.path.join(WORK, "replays")
    os.makedirs(d, exist_ok=True)
    h = hashlib.sha256(json.dumps(obj, sort_keys=True).encode()).hexdigest()[:12]
    path = os.path.join(d, "%s_%s.json" % (prop, h))
    json.dump(obj, open(path, "w"), indent=1)
    return path
