# Helpers shared by the whole-parse property modules: report parsing, tree parsing, HTML reading.
import re
from lib import hx, unhx

PANICMSG = re.compile(r"panic (\w+) [0-9a-f-]+")
GAUGE = re.compile(r" (gauge|probe|wstk)=[^\s\];]+")


def project(o):
    """what model and implementation are compared on: everything but the measured gauge"""
    if o is None:
        return None
    return PANICMSG.sub(r"panic \1", GAUGE.sub("", o))


def fields(report):
    """'ok k=v k=v ...' -> dict"""
    d = {}
    if not report.startswith("ok"):
        return d
    for part in report.split(" ")[1:]:
        if "=" in part:
            k, v = part.split("=", 1)
            d[k] = v
    return d


class TNode:
    __slots__ = ("depth", "kind", "args", "start", "end", "attrs", "children", "parent")

    def __repr__(self):
        return "%s%r@%s-%s" % (self.kind, self.args, self.start, self.end)


NODE_RE = re.compile(r"^(\d+):(\w+)\((.*?)\)@(none|\d+-\d+)\{(.*)\}$")


def parse_tree(dump):
    nodes = []
    stack = []
    for item in dump.split(";"):
        m = NODE_RE.match(item)
        if not m:
            raise ValueError("bad node " + item[:80])
        n = TNode()
        n.depth = int(m.group(1))
        n.kind = m.group(2)
        n.args = m.group(3).split(",") if m.group(3) else []
        if m.group(4) == "none":
            n.start = n.end = None
        else:
            a, b = m.group(4).split("-")
            n.start, n.end = int(a), int(b)
        n.attrs = []
        if m.group(5):
            for kv in m.group(5).split(","):
                k, v = kv.split("=", 1)
                n.attrs.append((k, unhx(v)))
        n.children = []
        while len(stack) > n.depth:
            stack.pop()
        n.parent = stack[-1] if stack else None
        if n.parent is not None:
            n.parent.children.append(n)
        stack.append(n)
        nodes.append(n)
    return nodes


def text_arg(n, i=0):
    return unhx(n.args[i]) if len(n.args) > i else b""


def opt_arg(a):
    return None if a == "none" else unhx(a[1:])


# ---------------------------------------------------------------------------
# strict reader for the renderer's own output language (C03, C04, C18)

VOID = {"hr", "br", "img"}
ALLOWED = {
    "p": set(), "h1": set(), "h2": set(), "h3": set(), "h4": set(), "h5": set(), "h6": set(), "hr": set(),
    "pre": set(), "code": {"class"}, "blockquote": set(), "ul": set(), "ol": {"start"}, "li": set(),
    "br": set(), "em": set(), "strong": set(), "s": set(), "a": {"href", "title"}, "img": {"src", "alt", "title"},
    "cb": set(), "ci": set(), "cc": set(), "cp": set(),
}
ENT = {b"&amp;": b"&", b"&lt;": b"<", b"&gt;": b">", b"&quot;": b'"'}


def unescape_strict(b):
    """inverse of escape_html; None if b contains a raw < > \" or a stray &"""
    out = bytearray()
    i = 0
    while i < len(b):
        c = b[i:i + 1]
        if c in (b"<", b">", b'"'):
            return None
        if c == b"&":
            for k, v in ENT.items():
                if b.startswith(k, i):
                    out += v
                    i += len(k)
                    break
            else:
                return None
        else:
            out += c
            i += 1
    return bytes(out)


TAG_RE = re.compile(rb"<(/?)([a-z][a-z0-9]*)((?: [a-z][a-z0-9-]*=\"[^\"<>]*\")*)( /)?>")
ATTR_RE = re.compile(rb" ([a-z][a-z0-9-]*)=\"([^\"<>]*)\"")


def read_html(html, sourcepos=False):
    """Returns (ok, message, elements) where elements is a list of (tag, attrs dict, text) in document order.
    Checks: every '<' opens/closes a known element, proper nesting, allowed attributes, escaped values/text."""
    stack = []
    elems = []
    i = 0
    n = len(html)
    text_chunks = []
    while i < n:
        lt = html.find(b"<", i)
        chunk = html[i:(lt if lt >= 0 else n)]
        if chunk:
            if unescape_strict(chunk) is None:
                return False, "character data not fully escaped: %r" % chunk[:40], elems
            text_chunks.append(unescape_strict(chunk))
        if lt < 0:
            break
        m = TAG_RE.match(html, lt)
        if not m:
            return False, "'<' does not start a well-formed tag at %d: %r" % (lt, html[lt:lt + 40]), elems
        closing, tag, attrs_raw, selfclose = m.group(1), m.group(2).decode(), m.group(3), m.group(4)
        if tag not in ALLOWED:
            return False, "unknown element <%s>" % tag, elems
        if closing:
            if attrs_raw or selfclose:
                return False, "closing tag with attributes", elems
            if not stack or stack[-1] != tag:
                return False, "mismatched </%s> (open: %r)" % (tag, stack[-3:]), elems
            stack.pop()
        else:
            attrs = {}
            for am in ATTR_RE.finditer(attrs_raw):
                name = am.group(1).decode()
                val = unescape_strict(am.group(2))
                if val is None:
                    return False, "attribute value not escaped", elems
                allowed = ALLOWED[tag] | ({"data-sourcepos"} if sourcepos else set())
                if name not in allowed:
                    return False, "attribute %s not allowed on <%s>" % (name, tag), elems
                if name in attrs:
                    return False, "duplicate attribute %s" % name, elems
                attrs[name] = val
            elems.append((tag, attrs))
            if tag in VOID:
                pass
            else:
                if selfclose:
                    return False, "non-void element self-closed", elems
                stack.append(tag)
        i = m.end()
    if stack:
        return False, "unclosed elements %r" % stack, elems
    return True, "", elems


def strip_tags_text(html):
    """text content of renderer output (tags removed, entities decoded)"""
    out = bytearray()
    for part in re.split(rb"<[^>]*>", html):
        u = unescape_strict(part)
        out += u if u is not None else part
    return bytes(out)
