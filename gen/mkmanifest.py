#!/usr/bin/env python3
# Writes MANIFEST.json from the per-property table below (kept in one place so it stays valid).
import json, os, subprocess
VERIF = os.path.dirname(os.path.dirname(os.path.abspath(__file__)))

CLAIMED_C15 = dict(
   text="Machine-checked Coq proof, for every byte string and every offset (on or off character boundaries, past the end), that the checkpoint/binary-search/forward-count converter of the model equals the direct one-pass definition (and that this pass is line = 1 + completed line endings, column = characters since the last one); the model is tied to /repo on every run by a differential correspondence check (SourceWithLineStarts::new + SourcePos::get_positions vs the extracted model, debug and release) and an independent Python implementation of the definition.",
   note="Trusted: Coq kernel; hand-written model coq/model/SourceMap.v (binary_search_by over strictly increasing offsets modelled as last-mark-with-offset<=key; char_indices modelled as non-continuation bytes) agrees with src/common/sourcemap.rs as far as the sampled correspondence shows; extraction, driver, harness.",
   technique="Coq proof over Gallina model + extracted-model/implementation differential correspondence",
   design="DESIGN.md section 6 C15")
CLAIMED_C17 = dict(
   text="Machine-checked Coq proofs (unbounded: all byte strings, all safe sets, both modes) of ASCII-only output, the (safe | %XX)* grammar, idempotence and escape preservation in keep-escaped mode, and decode round trip otherwise, about a hand-written Gallina model of mdurl::encode; the model is tied to /repo on every run by a differential correspondence check (model extracted to OCaml vs the real function on generated and follow-up inputs, debug and release builds).",
   note="Trusted: Coq kernel; hand-written model (coq/model/Mdurl.v) agrees with src/common/mdurl/encode.rs only as far as the sampled correspondence shows; extraction (ExtrOcamlBasic), OCaml driver, Rust harness; String::from_utf8 on ASCII bytes.",
   technique="Coq proof over Gallina model + extracted-model/implementation differential correspondence",
   design="DESIGN.md section 6 C17")
COMMON_NOTE = ("Trusted: Coq 8.16 kernel (vm_compute used, no native_compute, no axioms); the hand-written Gallina model of the "
               "library (coq/model/*.v: modelled, not verified) agrees with /repo only as far as the sampled correspondence shows; "
               "extraction (ExtrOcamlBasic), OCaml driver, Rust harness, Python generators/oracles; tables dumped from the implementation.")
TECH = "Coq proof over Gallina model + extracted-model/implementation differential correspondence"

def P(text, design, note=COMMON_NOTE, category="proof", technique=TECH):
    return dict(text=text, note=note, design=design, category=category, technique=technique)

PENDING = (" The unbounded theorems for this property are not all proved yet: props/%s.v currently holds kernel-evaluated "
           "witnesses on the whole-parser model (and the lemmas listed in the evidence under 'theorems'); until they land the "
           "deciding evidence on a run is the model/implementation correspondence on every observable plus the implementation-side "
           "property oracle, so the level claimed is exploration, not proof.")
TECH_X = "differential correspondence with the Coq model (extracted) + implementation-side property oracle; Coq theorems partial"

CLAIMED = {
 "C01": P("Machine-checked Coq proofs over the whole-parser model (explicit Panic/Hang/OutOfFuel outcomes): for EVERY parser object (any rule chain, any order, any cache state, any nesting limit) and every byte string, parse never ends in Hang or OutOfFuel -- the block line loop, the list-item loop, the inline position loop and the link-label scanner always advance (every inline rule that matches reports a positive length, skip_token and the skip cache only point forward) and the recursion never needs more than 2*max_nesting+10 nested calls; rendering has no such outcome either. NOT proved: absence of Panic (index/slice/unwrap/overflow/assert); that half is decided on every run by the model/implementation correspondence on tree, ranges, HTML and events plus the implementation-side no-panic/no-abort/no-hang oracle (debug and release builds) on generated and adversarial documents under random plugin subsets, orders and nesting limits.", "DESIGN.md section 6 C01"),
 "C02": P("Machine-checked Coq proofs over the whole-parser model in which every nested tokenizer / skip_token call consumes a unit of an explicit recursion budget: for every input and rule chain the block tokenizer needs at most max_nesting+1-level nested calls, the inline tokenizer at most max_nesting+2-level, and parse never exhausts 2*max_nesting+10 (a smaller budget does run out: non-vacuity example). NOT proved: the bound on the depth of the produced tree (hence walk/render/drop); decided on every run by nesting families at 1x..200x the limit under limits {0,1,2,3,10,100}: tree depth (emphasis wrappers not counted) <= 3*limit+4, measured recursion gauge (hook) <= limit+2, recursive walk returns; emphasis-only excess is the open known finding F3; model/implementation correspondence on the same inputs.", "DESIGN.md section 6 C02"),
 "C03": P("Machine-checked Coq proofs: escape_html leaves no raw '<', '>' or double quote and is lossless for a reader decoding the four entities (all byte strings); text events and attribute names/values reach the output only through it, values always double-quoted (chunk structure of the serializer, see C19). NOT proved yet: that the parser never produces raw-HTML nodes without the HTML plugins, and proper nesting of the emitted elements; these are decided on every run by a strict reader of the renderer's output language applied to the implementation's HTML/XHTML for hostile and generated input under random plugin sets without the HTML plugins, and by the correspondence with the whole-parser model.", "DESIGN.md section 6 C03"),
 "C04": P("Machine-checked Coq proofs of the pipeline every destination goes through, for every byte string: a normalised link is printable ASCII only (side condition on the safe set, checked on the generated constant), what a browser reads from the escaped attribute (entities decoded, leading C0/space stripped, tab/LF/CR removed) is exactly the normalised link, validate_link on ASCII text is exactly 'does not start, in any letter case, with vbscript:/javascript:/file:/data: unless data:image/(gif|png|jpeg|webp);' (verdict of the modelled regex engine), hence a validated link is not dangerous when the browser reads it. NOT proved: that every Link/Image/Autolink url in a parse result went through this pipeline and that rejected constructs stay text; decided on every run by the browser-scheme oracle on the implementation's HTML for scheme x obfuscation x link-syntax tables and generated documents, norm/valid unit commands, and the model/implementation correspondence.", "DESIGN.md section 6 C04"),
 "C05": P("Range oracle (validity, boundaries, root, nesting, sibling order, faithful Text/TextSpecial) on every node of generated documents biased to tabs, multi-byte text, CR/CRLF and nested inline content; model/implementation correspondence on every range." + PENDING % "C05", "DESIGN.md section 6 C05", category="exploration", technique=TECH_X),
 "C06": P("Metamorphic relations on tab-free documents: '> '-prefixing gives the blockquote wrapper and shifts every range by the inserted bytes; placing D in a loose list item gives the list wrapper; model/implementation correspondence on all three parses." + PENDING % "C06", "DESIGN.md section 6 C06", category="exploration", technique=TECH_X),
 "C07": P("Machine-checked Coq proofs over the whole-parser model in which the parser's interior-mutable caches (compiled chain of the three rulers, lazily chosen text scanner) are explicit state and all per-document state is created inside parse: a parser with warm caches returns what the same configuration with cold caches returns and keeps configuration and cache coherence; hence for every configuration history and every sequence of documents already parsed, the next parse returns exactly what a freshly built parser with the same configuration returns (unbounded in number and size of documents). Tied to /repo on every run by histories of 2..12 documents on one instance vs fresh instances (tree, HTML, XHTML; documents built to poison caches: reference definitions/look-ups, backtick runs, huge bracket spans, low-byte colliding characters) and by the model/implementation correspondence on those histories.", "DESIGN.md section 6 C07"),
 "C08": P('Machine-checked Coq proofs: every configuration call of the model (21 plugin adds incl. the emphasis/link bookkeeping in md.env, rule removal for block/inline/core rules, nesting limit) is determined by the configuration of its argument and leaves the caches coherent; therefore deleting the parse calls from any history of adds, removes and parses does not change what the next parse returns; the same for one Ruler (any adds with builder calls, removes, interleaved iter/Debug). Tied to /repo on every run by full-vs-erased histories at MarkdownIt level (random and exhaustive short histories per rule, letter- and punctuation-marker custom rules) and Ruler level, has_rule / Debug outcomes, and the model/implementation correspondence on every history.', "DESIGN.md section 6 C08"),
 "C09": P("Machine-checked Coq proofs for every rule set (any number of rules, marks, aliases, duplicate/absent/own marks in constraints, priorities, insertion order): compile() of src/common/ruler.rs, modelled loop by loop (Vec::insert positions, idhash with or_default entries, HashSet graph, repeated selection), equals the specification (refinement theorem compile_spec): panic Missing iff a requirement names an absent mark; otherwise the canonical greedy-by-rank order, which is a permutation of the rules respecting every before/after edge through every alias; panic Cyclic iff no admissible order exists (completeness by a pigeonhole argument on any admissible order); no other outcome; the Ruler cache returns the same answer on every use. The model is tied to /repo on every run by the differential correspondence on random builder scripts (order, panic kind, Debug output, reuse) plus an independent implementation-side oracle.", "DESIGN.md section 6 C09"),
 "C10": P('Machine-checked Coq proofs over the whole-parser model: the block parser receives only the list of line texts (source positions are symbolic), the line texts are invariant under LF->CRLF, LF->CR (CR-free input) and one appended final LF (input not ending in a line ending), and the core chain reads the source through them only unless the source-position rule runs; hence for every configuration without that rule, every fuel and every input the HTML/XHTML (or error) is unchanged by the three transformations. With the source-position plugin the statement is not proved (checked by oracle). Tied to /repo on every run by the metamorphic relations on generated documents, spec inputs and constructs left open at end of input under random plugin sets, and by the model/implementation correspondence on all variants.', "DESIGN.md section 6 C10"),
 "C11": P("Payload x {fence, four-space indent, backtick span} x {top level, block quote, list item}: content field and escaped HTML equal the payload; cutws/indent unit correspondence for the tab-stop arithmetic; model/implementation correspondence." + PENDING % "C11", "DESIGN.md section 6 C11", category="exploration", technique=TECH_X),
 "C12": P("Machine-checked Coq proofs about the decoder of destinations, titles, definitions and info strings (unescape_all): every named reference of the implementation's entity table decodes to its value (finite sweep over the generated table), every well-formed numeric reference decodes to the character of its code point or U+FFFD exactly as the paragraph-text path computes it (code_to_str o numeric_code), the allowed code points are characterised, backslash + punctuation decodes to the character and any other backslash stays. NOT proved: the equality across the five contexts end to end and the escape-everything round trip; these are decided on every run by the context oracle (every table name in the thorough tier, numeric boundaries, 32 escapes x 5 contexts), the round-trip oracle and the correspondence (unesc/ent/entcode unit commands and parses).", "DESIGN.md section 6 C12"),
 "C13": P("Machine-checked Coq proofs about label matching: normalisation (trim, collapse whitespace runs, per-character upper(lower(c)) over the case tables generated from the implementation) is idempotent (definitions normalise twice, uses once), every character has the same normal form as its lowercase and uppercase expansions (finite sweep over the tables: includes final sigma, sharp s, dotted I, ligatures, Kelvin/Angstrom/Ohm), every White_Space character counts as a space and runs collapse to a normal form; the per-document map keeps the first definition of a key. NOT proved: resolution end to end (placement anywhere in the document, the four use forms) and equality with full Unicode case folding; these are decided on every run by the resolution oracle against Python's casefold on generated label pairs x forms x placements, every case-mapped character, and the model/implementation correspondence.", "DESIGN.md section 6 C13"),
 "C14": P("Machine-checked Coq proofs, for every tree, about the clean-up pass that produces the final shape (FragmentsJoin): afterwards no node anywhere has a delimiter placeholder, an empty Text or two adjacent Text nodes among its children, all other nodes are kept in order and the text is preserved (C14_fragments_join_partial, C14_join_keeps_others, C14_join_keeps_text). The remaining clauses of the full statement (kinds per parent, Root only at the top, childless leaves, no InlineRoot) are NOT proved yet; they are decided on every run by the tree-shape oracle on the implementation's trees and by the correspondence with the whole-parser model (random plugin sets containing the paragraph rule, delimiter-heavy inputs, nesting limits).", "DESIGN.md section 6 C14"),
 "C15": CLAIMED_C15,
 "C16": P("Dual-run probe (hook): every rule is called in look-ahead mode right before its real call in both tokenizer loops and contradictions are recorded; custom block rule in both permitted look-ahead styles, first or last in the chain, after every container: identical HTML; model/implementation correspondence." + PENDING % "C16", "DESIGN.md section 6 C16", category="exploration", technique=TECH_X),
 "C17": CLAIMED_C17,
 "C18": P("Machine-checked Coq proofs for every tree: the alt text computed by Image::render is the concatenation over the pre-order walk of the image's subtree of each node's own text (Text, decoded escape/reference, line feed for breaks), it is the value of the alt attribute issued through the renderer interface, and for every inline subtree (childless leaves, no node attribute named alt) it equals the text its own renderer events display (text events, a line feed per break event, the alt of nested images). Tied to /repo on every run by the correspondence of the whole-parser model (tree, HTML, events) and an implementation-side oracle comparing every <img alt> with the text recomputed from the dumped tree, on generated descriptions incl. 300-level emphasis nesting.", "DESIGN.md section 6 C18"),
 "C19": P("Machine-checked Coq proofs for every event sequence: the built-in serializer appends exactly one chunk per renderer event and nothing else (open/close/self-close tags with escaped double-quoted attributes, escaped text, raw text, a line feed for a break event unless the output is empty or already ends with one), XHTML equals HTML chunk by chunk except for ' /' before the final '>' of self-close chunks, and U+0000 never reaches the output. Purity of rendering is a typing fact in the model and is checked on the implementation (render twice, tree dump before/after). Tied to /repo on every run: an independent Python serializer is applied to the events the implementation issues through the public Renderer trait and must reproduce Node::render and Node::xrender; the model's events and output are compared with the implementation's (all plugin sets, two fence prefixes interleaved, outputs above 16 KiB, NUL in every sink).", "DESIGN.md section 6 C19"),
 "C20": P("Machine-checked Coq proofs: (storage) under the invariant 'one entry per type id, each boxed value has the type of its key', insert / get_or_insert / get_mut+assign / remove / clear / contains / len refine a total map type id -> option value for all keys and values, the invariant holds after any operation sequence from the empty set and no downcast ever fails; (traversal) walk lists exactly the nodes at the valid child-index paths, each once, parents first and siblings in order, with depth = start depth + path length, for every tree; walk_mut visits the same addresses whatever the callback does; replace changes the kind only. The model is tied to /repo on every run by differential correspondence (eset scripts over five value types incl. zero-sized and same-layout ones, walk/walk_mut/replace on random and > 256-level-deep shapes) and an independent Python specification.", "DESIGN.md section 6 C20", note=COMMON_NOTE + " TypeId injectivity and HashMap-as-finite-map are trusted."),
}

NOT_YET = {}

def main():
    try:
        commits = subprocess.run(["git", "-C", "/repo", "log", "--format=%H %s"], stdout=subprocess.PIPE).stdout.decode().split("\n")
        hooks = [c.split(" ")[0] for c in commits if "verif hook" in c]
    except Exception:
        hooks = []
    props = [json.loads(l)["id"] for l in open(os.path.join(VERIF, "properties.jsonl")) if l.strip()]
    checks = []
    for p in props:
        if p in CLAIMED:
            c = CLAIMED[p]
            checks.append({
                "property_id": p,
                "quick_cmd": "bin/check %s --tier quick" % p,
                "thorough_cmd": "bin/check %s --tier thorough" % p,
                "evidence_file": "evidence/%s.json" % p,
                "replay_cmd_template": "bin/check %s --replay {path}" % p,
                "engine": "coq-model-correspondence",
                "level_claimed": {"category": c.get("category", "proof"), "text": c["text"], "design_ref": c.get("design", "DESIGN.md section 6")},
                "level_note": c["note"],
                "technique": c["technique"],
            })
    na = [{"property_id": p, "reason": NOT_YET.get(p, "check not built yet in this round (model layer pending); see DESIGN.md section 9.3")}
          for p in props if p not in CLAIMED]
    man = {
        "version": 1,
        "setup_cmd": "bin/setup",
        "hooks": {
            "guard": "--cfg markdown_it_verif",
            "enable": "RUSTFLAGS='--cfg markdown_it_verif' when building the harness crate /verif/harness (path dependency on /repo)",
            "baseline_off_cmd": "cd /repo && cargo test --workspace --no-fail-fast --offline",
            "source_commits": hooks,
            "add_only": True,
        },
        "engines": [{
            "name": "coq-model-correspondence", "path": "bin/check",
            "serves_properties": sorted(CLAIMED.keys()),
            "kind_free_text": "Coq 8.16 proofs over a hand-written Gallina model (coq/), extracted to OCaml (driver/) and compared with the real code through a Rust harness (harness/) on generated inputs (gen/)",
        }],
        "checks": checks,
        "not_applicable": na,
        "notes": "See DESIGN.md. Every check rebuilds the harness from /repo's working tree, regenerates coq/gen/Tables.v from the implementation, rebuilds the Coq closure of the property's theorems, audits statements/assumptions, runs the correspondence and the implementation-side property oracle.",
    }
    json.dump(man, open(os.path.join(VERIF, "MANIFEST.json"), "w"), indent=1)

if __name__ == "__main__":
    main()
