#!/usr/bin/env python3
# Writes MANIFEST.json from the per-property table below (kept in one place so it stays valid).
import json, os, subprocess
VERIF = os.path.dirname(os.path.dirname(os.path.abspath(__file__)))

CLAIMED = {
 "C15": dict(
   text="Machine-checked Coq proof, for every byte string and every offset (on or off character boundaries, past the end), that the checkpoint/binary-search/forward-count converter of the model equals the direct one-pass definition (and that this pass is line = 1 + completed line endings, column = characters since the last one); the model is tied to /repo on every run by a differential correspondence check (SourceWithLineStarts::new + SourcePos::get_positions vs the extracted model, debug and release) and an independent Python implementation of the definition.",
   note="Trusted: Coq kernel; hand-written model coq/model/SourceMap.v (binary_search_by over strictly increasing offsets modelled as last-mark-with-offset<=key; char_indices modelled as non-continuation bytes) agrees with src/common/sourcemap.rs as far as the sampled correspondence shows; extraction, driver, harness.",
   technique="Coq proof over Gallina model + extracted-model/implementation differential correspondence",
   design="DESIGN.md section 6 C15"),
 "C17": dict(
   text="Machine-checked Coq proofs (unbounded: all byte strings, all safe sets, both modes) of ASCII-only output, the (safe | %XX)* grammar, idempotence and escape preservation in keep-escaped mode, and decode round trip otherwise, about a hand-written Gallina model of mdurl::encode; the model is tied to /repo on every run by a differential correspondence check (model extracted to OCaml vs the real function on generated and follow-up inputs, debug and release builds).",
   note="Trusted: Coq kernel; hand-written model (coq/model/Mdurl.v) agrees with src/common/mdurl/encode.rs only as far as the sampled correspondence shows; extraction (ExtrOcamlBasic), OCaml driver, Rust harness; String::from_utf8 on ASCII bytes.",
   technique="Coq proof over Gallina model + extracted-model/implementation differential correspondence",
   design="DESIGN.md section 6 C17"),
}

NOT_YET = {}

def main():
    try:
        commits = subprocess.run(["git", "-C", "/repo", "log", "--format=%H %s"], stdout=subprocess.PIPE).stdout.decode().split("\n")
        hooks = [c.split(" ")[0] for c in commits if "verif hook" in c]
    except Exception:
        hooks = []
    props = [json.loads(l)["id"] for l in open(os.path.join(VERIF, "properties.jsonl")) if l.strip()]
    checks = []
    for p in props:
        if p in CLAIMED:
            c = CLAIMED[p]
            checks.append({
                "property_id": p,
                "quick_cmd": "bin/check %s --tier quick" % p,
                "thorough_cmd": "bin/check %s --tier thorough" % p,
                "evidence_file": "evidence/%s.json" % p,
                "replay_cmd_template": "bin/check %s --replay {path}" % p,
                "engine": "coq-model-correspondence",
                "level_claimed": {"category": c.get("category", "proof"), "text": c["text"], "design_ref": c["design"]},
                "level_note": c["note"],
                "technique": c["technique"],
            })
    na = [{"property_id": p, "reason": NOT_YET.get(p, "check not built yet in this round (model layer pending); see DESIGN.md section 9.3")}
          for p in props if p not in CLAIMED]
    man = {
        "version": 1,
        "setup_cmd": "bin/setup",
        "hooks": {
            "guard": "--cfg markdown_it_verif",
            "enable": "RUSTFLAGS='--cfg markdown_it_verif' when building the harness crate /verif/harness (path dependency on /repo)",
            "baseline_off_cmd": "cd /repo && cargo test --workspace --no-fail-fast --offline",
            "source_commits": hooks,
            "add_only": True,
        },
        "engines": [{
            "name": "coq-model-correspondence", "path": "bin/check",
            "serves_properties": sorted(CLAIMED.keys()),
            "kind_free_text": "Coq 8.16 proofs over a hand-written Gallina model (coq/), extracted to OCaml (driver/) and compared with the real code through a Rust harness (harness/) on generated inputs (gen/)",
        }],
        "checks": checks,
        "not_applicable": na,
        "notes": "See DESIGN.md. Every check rebuilds the harness from /repo's working tree, regenerates coq/gen/Tables.v from the implementation, rebuilds the Coq closure of the property's theorems, audits statements/assumptions, runs the correspondence and the implementation-side property oracle.",
    }
    json.dump(man, open(os.path.join(VERIF, "MANIFEST.json"), "w"), indent=1)

if __name__ == "__main__":
    main()
