# Generators of markdown documents: structured grammar + perturbation, soup, corpus.
import random
from corpus import spec_inputs

WORDS = ["foo", "bar", "baz", "a", "b", "x", "xx", "Hello", "wörld", "é", "€uro", "日本", "𝄞", "q", "z1", "I", "ß"]
PUNCT = list("!\"#$%&'()*+,-./:;<=>?@[\\]^_`{|}~")
ENTS = ["&amp;", "&lt;", "&quot;", "&copy;", "&#35;", "&#x22;", "&#X41;", "&#0;", "&#1234567;", "&#xD800;", "&nbsp;", "&ouml;",
        "&AElig;", "&Dcaron;", "&frac34;", "&HilbertSpace;", "&DifferentialD;", "&ClockwiseContourIntegral;", "&ngE;",
        "&#xDFFF;", "&#57343;", "&#xD7FF;", "&#xE000;", "&#xFDD0;", "&#xFDEF;", "&#xFDCF;", "&#xFDF0;", "&#xFFFE;", "&#x1FFFF;", "&#x10FFFE;", "&#8;", "&#11;", "&#14;", "&#31;", "&#127;", "&#159;", "&#160;",
        "&#12345678;", "&#x1234567;", "&amp", "&x;", "&#;", "&#x;", "&MadeUpEntity;", "&#xFFFF;", "&#x10FFFF;", "&#x110000;", "&#65;", "&#9;"]
URLS = ["/url", "http://example.com/a?b=c&d", "foo%20bar", "javascript:alert(1)", "JaVaScRiPt:x", "data:image/png;base64,AA",
        "data:text/html,x", "vbscript:x", "file:///etc", "#frag", "<a b>", "/a(b)c", "/a\\)b", "mailto:x@y.z", "ä/ö", "a b",
        "(x)", "\\&amp;", "&#106;avascript:x", "java&#x73;cript:x", "%6Aavascript:x", "ftp://x", "//host", "", "/p%a", "x%", "%", "/%e4%b", "a%zz", "/50%2", "%4"]
TITLES = ['"t"', "'t'", "(t)", '"a \\" b"', "'&quot;'", '"multi\nline"', "(a\\)b)", '""', '"&#65;"']


def word(rng):
    return rng.choice(WORDS)


def inline(rng, depth=0, nolink=False):
    n = rng.choice([1, 1, 2, 3, 4, 6])
    parts = []
    for _ in range(n):
        k = rng.random()
        if k < 0.35 or depth > 3:
            parts.append(word(rng))
        elif k < 0.45:
            m = rng.choice(["*", "_", "**", "__", "***", "~~", "~", "*", "**"])
            parts.append(m + inline(rng, depth + 1, nolink) + rng.choice([m, m, m, "", m[0]]))
        elif k < 0.52:
            t = rng.choice(["`", "``", "```"])
            parts.append(t + rng.choice(["", " "]) + rng.choice(["code", "a`b", "*x*", "&amp;", "a\nb", " ", "  ", "``", "<b>", "\\"]) + rng.choice(["", " "]) + rng.choice([t, t, t, "`", ""]))
        elif k < 0.535:
            t = rng.choice(["%", "%", "%%", "%%%"])
            parts.append(t + rng.choice(["", " "]) + inline(rng, depth + 1, nolink) + rng.choice(["", " "]) + rng.choice([t, t, t, "%", ""]))
        elif k < 0.62 and not nolink:
            lab = inline(rng, depth + 1, True)
            form = rng.random()
            if form < 0.5:
                u = rng.choice(URLS)
                if rng.random() < 0.3:
                    u = "<" + u + ">"
                t = (" " + rng.choice(TITLES)) if rng.random() < 0.4 else ""
                parts.append(rng.choice(["", "!"]) + "[" + lab + "](" + rng.choice(["", " ", "\n"]) + u + t + rng.choice(["", " "]) + ")")
            elif form < 0.7:
                parts.append(rng.choice(["", "!"]) + "[" + lab + "][" + rng.choice(["ref", "REF", "Ref", "r  2", "ẞ", "ς", ""]) + "]")
            else:
                parts.append(rng.choice(["", "!"]) + "[" + rng.choice(["ref", "REF", "r 2", "SS", "Σ", "foo"]) + "]")
        elif k < 0.67:
            parts.append("<" + rng.choice(["http://a.b/c", "foo@bar.com", "javascript:x", "a+b:c", "mailto:q", "h:", "x", "http://a b", "JAVASCRIPT:1", "data:x", "irc://é"]) + ">")
        elif k < 0.73:
            parts.append(rng.choice(ENTS))
        elif k < 0.80:
            parts.append("\\" + rng.choice(PUNCT + ["a", "\n", " ", "é"]))
        elif k < 0.85:
            parts.append(rng.choice(["<b>", "</b>", "<a href=\"x\">", "</a>", "<!-- c -->", "<?php x ?>", "<![CDATA[x]]>", "<!DOCTYPE x>", "<br/>", "<x y='z' w=v>", "<a\nb>", "<1>", "< a>", "<a b=>"]))
        elif k < 0.90:
            parts.append(rng.choice(["  \n", "\n", " \n", "\\\n", "   \n  "]))
        else:
            parts.append(rng.choice(PUNCT + ["[", "]", "![", "](", "* ", " *", "_a", "a_", "**", "``", "<", ">", "&", "xx", "%%", "\t", "\0", "  ", "~~"]))
    sep = rng.choice([" ", " ", "", " "])
    return sep.join(parts)


def indent_lines(text, prefix, first=None):
    ls = text.split("\n")
    out = []
    for i, l in enumerate(ls):
        p = first if (i == 0 and first is not None) else prefix
        out.append((p + l) if l or p.strip() else l)
    return "\n".join(out)


def block(rng, depth=0):
    k = rng.random()
    if k < 0.28 or depth > 3:
        return "\n".join(inline(rng) for _ in range(rng.choice([1, 1, 2, 3])))
    if k < 0.36:
        return "#" * rng.choice([1, 2, 3, 6, 7]) + rng.choice([" ", "  ", "", "\t"]) + inline(rng) + rng.choice(["", " #", " ##  ", "#", " \\#"])
    if k < 0.41:
        return inline(rng) + "\n" + rng.choice(["===", "---", "=", "-", "== =", "  ---  ", "    ---"])
    if k < 0.48:
        f = rng.choice(["```", "~~~", "````", "~~~~", "``"])
        info = rng.choice(["", "rust", " py  extra", "a`b", "&amp;x", "\\*x", "&#65;b", "é"])
        body = "\n".join(rng.choice(["code", "  indented", "\tx", "", "```", "~~~", "*a*", "&amp;", "> q", "- l", "\\", "<b>"]) for _ in range(rng.choice([0, 1, 2, 4])))
        close = rng.choice([f, f, f + "`" if f[0] == "`" else f + "~", "", f + " ", f + " x", "  " + f])
        return f + info + "\n" + body + ("\n" if body else "") + close
    if k < 0.54:
        return "\n".join(rng.choice(["    ", "\t", "     ", "  \t", "    \t"]) + rng.choice(["code", "a\tb", "*x*", "&amp;", "<b>", "  more"]) + rng.choice(["", "  "]) for _ in range(rng.choice([1, 2, 3])))
    if k < 0.64:
        inner = doc(rng, depth + 1, rng.choice([1, 1, 2]))
        pre = rng.choice(["> ", ">", " > ", ">  ", ">\t", "   > "])
        lines = inner.split("\n")
        out = []
        for i, l in enumerate(lines):
            if i > 0 and rng.random() < 0.15:
                out.append(l)           # lazy continuation
            else:
                out.append(pre + l)
        return "\n".join(out)
    if k < 0.78:
        marker = rng.choice(["- ", "* ", "+ ", "1. ", "2) ", "10. ", "-  ", "-\t", "- ", "1.  ", "123456789. ", "0. "])
        items = []
        for _ in range(rng.choice([1, 2, 2, 3])):
            inner = doc(rng, depth + 1, rng.choice([1, 1, 2]))
            w = len(marker)
            items.append(indent_lines(inner, " " * w, marker))
        return rng.choice(["\n", "\n\n", "\n"]).join(items)
    if k < 0.82:
        return rng.choice(["***", "---", "___", "* * *", " - - -", "**", "-- -", "_____   ", "***a"])
    if k < 0.90:
        lab = rng.choice(["ref", "REF", "r   2", "ſs", "ẞ", "σ", "Foo", "a\\]b", "r\n2", ""])
        return "[" + lab + "]:" + rng.choice([" ", "\n", "  ", ""]) + rng.choice(URLS[:14] + ["<>", "<a b>"]) + rng.choice(["", " " + rng.choice(TITLES), "\n" + rng.choice(TITLES), " x", " " + rng.choice(TITLES) + " y"])
    if k < 0.96:
        return rng.choice(["<div>\nx\n</div>", "<script>\na\n\nb</script>", "<!-- c\n\nd -->", "<?x\n?>", "<!DOCTYPE a>", "<![CDATA[\nx\n]]>",
                           "<p>", "</div>", "<a href=\"x\">\n*y*", "<pre>\n\n</pre> tail", "<del>\nx", "<x y=z>", "<h1 a='b'/>", "<DIV", "<ſcript>\nx"])
    return rng.choice(["@@@", "@@@  ", " @@@", "@@@x"])


def doc(rng, depth=0, n=None):
    n = n or rng.choice([1, 2, 3, 4, 6])
    parts = [block(rng, depth) for _ in range(n)]
    out = parts[0]
    for p in parts[1:]:
        out += rng.choice(["\n\n", "\n\n", "\n", "\n\n\n", "\n \n"]) + p
    return out


def perturb(rng, s):
    if not s:
        return s
    k = rng.random()
    i = rng.randrange(len(s))
    if k < 0.2:
        return s[:i] + s[i + 1:]
    if k < 0.4:
        return s[:i] + s[i] + s[i:]
    if k < 0.5:
        j = rng.randrange(len(s))
        a, b = min(i, j), max(i, j)
        return s[:a] + s[b:b + 1] + s[a + 1:b] + s[a:a + 1] + s[b + 1:]
    if k < 0.65:
        return s[:i] + rng.choice([" ", "  ", "\t", "    ", "\n", "\n\n"]) + s[i:]
    if k < 0.75:
        return s.replace("\n", rng.choice(["\r\n", "\r"]), rng.choice([1, 100]))
    if k < 0.85:
        return s[:i] + rng.choice(["\0", "é", " ", " ", "　", "𝄞", "\x0b", "\x0c", " "]) + s[i:]
    return s[:i] + rng.choice(PUNCT) + s[i:]


FRAGS = ["[", "]", "(", ")", "`", "``", "*", "**", "_", "~~", "!", "<", ">", "\\", "&", "#", "-", "+", "1.", ">", " ", "  ", "\n", "\n\n", "\t",
         "a", "b", "é", "&amp;", "&#x41;", "](", "](u)", "[x]", "[x]: /u", "```", "~~~", "    ", "===", "---", "<a>", "</a>", "<!--", "-->", "http://a.b", "@", ":", "\"", "'", "\0", "\r", "xx", "%%", "@@@"]


def soup(rng, n=None):
    n = n or rng.choice([1, 2, 3, 5, 8, 13, 30])
    return "".join(rng.choice(FRAGS) for _ in range(n))


def gen_doc(rng):
    k = rng.random()
    if k < 0.6:
        d = doc(rng)
        for _ in range(rng.choice([0, 0, 1, 2])):
            d = perturb(rng, d)
        return d
    if k < 0.9:
        return soup(rng)
    ins = spec_inputs()
    d = rng.choice(ins) if ins else doc(rng)
    for _ in range(rng.choice([0, 1, 2])):
        d = perturb(rng, d)
    return d


ALL_PLUGINS = "nebmliatcfqhurHLpsxXS"


def gen_cfg(rng, require=None, forbid=""):
    k = rng.random()
    base = [c for c in ALL_PLUGINS if c not in forbid]
    if k < 0.5:
        cfg = list(base)
    elif k < 0.7:
        cfg = list(base)
        cfg.remove(rng.choice(cfg))
    elif k < 0.8:
        cfg = rng.sample(base, rng.choice([1, 2, 3, 5]))
    else:
        cfg = [c for c in base if rng.random() < 0.7]
    if rng.random() < 0.6:
        rng.shuffle(cfg)
    for c in (require or ""):
        if c not in cfg:
            cfg.append(c)
    if "8" not in forbid and rng.random() < 0.15:
        cfg.insert(rng.randrange(len(cfg) + 1), "8")      # generic pair '%' with nested inline parsing (harness plugin)
    return "".join(cfg) or "-"


def clean_utf8(s):
    """documents are str; make sure they encode"""
    return s.encode("utf-8", "replace").decode("utf-8")
