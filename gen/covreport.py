# condenses llvm-cov's export into evidence/coverage.json (files under /repo/src only)
import sys, json
exp = json.load(open(sys.argv[1]))
files = {}
for f in exp["data"][0]["files"]:
    name = f["filename"]
    if not name.startswith("/repo/src/") or name.endswith("/verif.rs"):
        continue
    # segments: [line, col, count, has_count, is_region_entry, is_gap]
    cov = {}
    segs = f["segments"]
    for i, s in enumerate(segs):
        line, col, count, has_count, _entry, gap = s[:6]
        if not has_count or gap:
            continue
        end_line = segs[i + 1][0] if i + 1 < len(segs) else line
        for l in range(line, max(line, end_line - (1 if i + 1 < len(segs) and segs[i + 1][1] == 1 else 0)) + 1):
            cov[l] = max(cov.get(l, 0), count)
    executed = sorted(l for l, c in cov.items() if c > 0)
    missed = sorted(l for l, c in cov.items() if c == 0)
    ranges = []
    for l in missed:
        if ranges and ranges[-1][1] == l - 1:
            ranges[-1][1] = l
        else:
            ranges.append([l, l])
    files[name[len("/repo/"):]] = {"lines_executable": len(cov), "lines_executed": len(executed),
                                   "never_executed": ["%d-%d" % (a, b) if a != b else str(a) for a, b in ranges]}
tot_e = sum(v["lines_executable"] for v in files.values())
tot_x = sum(v["lines_executed"] for v in files.values())
out = {"what": "source lines of /repo/src executed by the implementation side of the quick-tier correspondence corpora of all checks (llvm source-based coverage, harness built with nightly -C instrument-coverage); never_executed lists where the model/code agreement is not sampled at all",
       "lines_executable": tot_e, "lines_executed": tot_x, "percent": round(100.0 * tot_x / max(1, tot_e), 2), "files": dict(sorted(files.items()))}
json.dump(out, open(sys.argv[2], "w"), indent=1)
print("coverage: %d / %d lines (%.1f%%)" % (tot_x, tot_e, out["percent"]))
for k, v in sorted(files.items()):
    if v["never_executed"]:
        print("  %-50s %4d/%-4d missed: %s" % (k, v["lines_executed"], v["lines_executable"], " ".join(v["never_executed"][:12])))
