# replays the implementation side of one property's quick-tier cases on the coverage build of the harness
import sys, os, random, importlib
sys.path.insert(0, os.path.dirname(os.path.abspath(__file__)))
import lib
from check import Case
prop = sys.argv[1]
mod = importlib.import_module("props." + prop.lower())
rng = random.Random(int(os.environ.get("VERIF_SEED", "1")))
cases = mod.cases(rng, "quick", Case)
lines = [c.line for c in cases]
out = lib.run_proto(os.environ["VERIF_COV_BIN"], lines, timeout=1800)
extra = []
if hasattr(mod, "followup"):
    for c, o in zip(cases, out):
        try:
            extra.extend(mod.followup(c, o, Case))
        except Exception:
            pass
    if extra:
        lib.run_proto(os.environ["VERIF_COV_BIN"], [c.line for c in extra], timeout=1800)
print("%s: %d + %d commands replayed on the coverage build" % (prop, len(lines), len(extra)))
