(* mdmodel: line-protocol driver around the extracted Coq model (Model.dispatch).
   Only glue: OCaml string <-> list of Model.n (bytes). *)
let rec pos_of_int (i : int) : Model.positive =
  if i = 1 then Model.XH
  else if i land 1 = 0 then Model.XO (pos_of_int (i lsr 1))
  else Model.XI (pos_of_int (i lsr 1))
let n_of_int (i : int) : Model.n = if i = 0 then Model.N0 else Model.Npos (pos_of_int i)
let rec int_of_pos (p : Model.positive) : int =
  match p with Model.XH -> 1 | Model.XO q -> 2 * int_of_pos q | Model.XI q -> 2 * int_of_pos q + 1
let int_of_n (n : Model.n) : int = match n with Model.N0 -> 0 | Model.Npos p -> int_of_pos p

let bytes_tbl = Array.init 256 n_of_int
let list_of_string (s : string) : Model.n list =
  let r = ref [] in
  for i = String.length s - 1 downto 0 do r := bytes_tbl.(Char.code s.[i]) :: !r done; !r
let string_of_list (l : Model.n list) : string =
  let b = Buffer.create 1024 in
  List.iter (fun x -> Buffer.add_char b (Char.chr ((int_of_n x) land 255))) l;
  Buffer.contents b

let () =
  try
    while true do
      let line = input_line stdin in
      if String.length line > 0 then begin
        let res = try string_of_list (Model.dispatch (list_of_string line))
                  with Stack_overflow -> "error stack-overflow" in
        print_string res; print_newline ()
      end
    done
  with End_of_file -> ()
